#!/bin/sh
# usage: tools/try_mutant.sh <patch.diff> <property id> [tier]   -- applies to /repo, runs the check, reverts
set -u
patch="$1"; id="$2"; tier="${3:-quick}"
cd /repo || exit 2
if [ -n "$(git status --porcelain)" ]; then echo "repo not clean"; exit 2; fi
git apply "$patch" || { echo "patch does not apply"; exit 2; }
cd /verif
./check "$id" --tier "$tier" > /tmp/try_mutant.$$.log 2>&1
rc=$?
git -C /repo checkout -- .
grep -E "^(VIOLATION|KNOWN-FINDING|MODEL-DRIFT|MACHINERY|  key=|C[0-9]+ )" /tmp/try_mutant.$$.log | cut -c1-400 | head -12
rm -f /tmp/try_mutant.$$.log
echo "exit=$rc"
