#!/usr/bin/env python3
"""Prints the prompt for a mutation-seeding sub-agent for property <id> (only the property text, no /verif content)."""
import json, sys
pid = sys.argv[1]
n = sys.argv[2] if len(sys.argv) > 2 else "2"
props = {json.loads(l)["id"]: json.loads(l) for l in open("/verif/properties.jsonl")}
p = props[pid]
print(f"""You are helping test a verification effort by writing realistic *bugs*. You work ONLY inside the scratch git worktree /tmp/wt/{pid} (a checkout of the Python library 4ment/torchtree: PyTorch-based phylogenetic inference) and write your results ONLY to /tmp/wtout/{pid}/. Do not read or touch /repo, /verif or any other directory under /tmp/wt or /tmp/wtout. No network is available.

How to run things: always `cd /tmp/wt/{pid}` and use `PYTHONPATH=/tmp/wt/{pid} /venv/bin/python ...` so that `import torchtree` resolves to the worktree (check with `print(torchtree.__file__)`). The existing test suite is run with:
  cd /tmp/wt/{pid} && PYTHONPATH=/tmp/wt/{pid} /venv/bin/python -m pytest -q -p no:cacheprovider --timeout=900 -n 4
(144 tests incl. doctests; all pass on the unchanged worktree).

The semantic property under study:

  Title: {p['title']}
  Statement: {p['statement']}
  Quantified over: {p['quantifier']['text']}
  Code it is anchored in: {', '.join(p['anchors']['files'])}
  Mechanisms: {'; '.join(m['name'] + ' (' + m['where'] + ')' for m in p['anchors']['mechanism'])}

Your task: produce {n} DIFFERENT, independent changes ("mutations") to the torchtree source under /tmp/wt/{pid}/torchtree, each of which
  (a) BREAKS the property above (for some input / history / schedule / crash point / configuration),
  (b) still imports/compiles, and the whole existing test suite STILL PASSES with the change applied (run it and confirm: 144 passed),
  (c) looks like a realistic programming slip, refactoring mistake or plausible-but-wrong "optimisation" a maintainer could make (not sabotage such as `if x == 42`), and is small (a few lines),
  (d) needs something SPECIFIC to manifest - a particular multi-step sequence of operations, an unusual but valid input (ties, particular shapes, sample size equal to another dimension, heterochronous dates, ...), a crash or fault at a particular point, a particular option combination, or two cooperating sites that each look fine alone - rather than failing at once under ordinary use.
Make the {n} changes differ in kind and in location (different functions / different mechanisms of the property).

For each mutation k = 1..{n} write into /tmp/wtout/{pid}/m<k>/ :
  - patch.diff : output of `git diff` in the worktree with ONLY that mutation applied (apply with `git apply`; never use `git stash` (it is shared between worktrees; use `git apply -R` or `git checkout -- .`); make sure the worktree is clean before starting the next mutation and when you finish),
  - demo.py : a small self-contained program (run as `PYTHONPATH=<tree> /venv/bin/python demo.py`) that exits 0 and prints PASS on the UNCHANGED tree and exits 1 printing FAIL (with the observed vs expected values) when the mutation is applied. It must judge the property itself (compare against an independent expectation), not merely detect the diff,
  - meta.json : {{"property": "{pid}", "title": "<one line>", "what_breaks": "<which clause of the property fails and how>", "needs_to_manifest": "<the specific input/sequence/crash point/option combination needed>", "files_changed": [...], "tests_passed_with_mutation": <number>, "commands_run": ["..."]}}
Verify each one yourself: demo passes on the clean tree, fails with the patch, full test suite passes with the patch. Leave the worktree clean at the end. In your final message give, per mutation, a two-line summary. Do not ask questions; decide yourself.""")
