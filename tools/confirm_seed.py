#!/usr/bin/env python3
"""Confirm a seeded change in a scratch worktree of /repo HEAD and store it under /verif/seeded/<name>/.
usage: confirm_seed.py <agent out dir with patch.diff demo.py meta.json> <name> [detected-by text]"""
import json, os, shutil, subprocess, sys, tempfile
src, name = sys.argv[1], sys.argv[2]
wt = tempfile.mkdtemp(prefix="confirm-", dir="/tmp")
os.rmdir(wt)
def sh(cmd, **kw):
    return subprocess.run(cmd, shell=True, stdout=subprocess.PIPE, stderr=subprocess.STDOUT, text=True, **kw)
r = sh(f"git -C /repo worktree add -q --detach {wt} HEAD")
assert r.returncode == 0, r.stdout
ran = []
try:
    env = f"cd {wt} && PYTHONPATH={wt} TORCHTREE_SRC={wt}"
    c = f"{env} /venv/bin/python {src}/demo.py"
    r0 = sh(c); ran.append(f"clean tree: demo exit {r0.returncode}")
    a = sh(f"cd {wt} && git apply {src}/patch.diff")
    ran.append(f"git apply: exit {a.returncode}")
    r1 = sh(c); ran.append(f"with patch: demo exit {r1.returncode}")
    t = sh(f"{env} /venv/bin/python -m pytest -q -p no:cacheprovider --timeout=900 -n 8 2>&1 | tail -1")
    ran.append("test suite with patch: " + t.stdout.strip())
    ok = r0.returncode == 0 and a.returncode == 0 and r1.returncode != 0 and "144 passed" in t.stdout and "failed" not in t.stdout
finally:
    sh(f"git -C /repo worktree remove --force {wt}")
print("\n".join(ran)); print("CONFIRMED" if ok else "NOT CONFIRMED")
if ok:
    dst = f"/verif/seeded/{name}"
    os.makedirs(dst, exist_ok=True)
    shutil.copy(f"{src}/patch.diff", dst); shutil.copy(f"{src}/demo.py", dst)
    meta = json.load(open(f"{src}/meta.json"))
    meta["confirmed_at_repo_head"] = sh("git -C /repo rev-parse --short HEAD").stdout.strip()
    meta["confirmation_ran"] = ran
    if len(sys.argv) > 3:
        meta["detected_by"] = sys.argv[3]
    json.dump(meta, open(f"{dst}/meta.json", "w"), indent=1)
sys.exit(0 if ok else 1)
