#!/usr/bin/env python3
"""Regenerates /verif/MANIFEST.json from the table below (single source of truth)."""
import json, os, subprocess
V = os.path.dirname(os.path.dirname(os.path.abspath(__file__)))

CHECKS = {
 "C18": dict(level="model_checking", design="4/C18",
   technique="TLA+ spec CheckpointFS.tla model-checked with TLC; real fork-and-kill crash enumeration validated by TraceCheckpointFS.tla (trace validation) + state-graph macro-transition comparison",
   text="TLC explores every crash point of every sequence of up to 3 (quick) / 4 (thorough) consecutive, possibly interrupted, checkpoint writes of the writer program as coded; the real writers (save_parameters, Optimizer.save_full_state, MCMC.save_full_state) are run in forked children killed before each file-system call from every reachable directory state, and every recorded history is validated by TLC against the spec with the three invariants evaluated in every state.",
   note="Process death only (no power loss / fsync); POSIX rename atomicity; interception of builtins.open/io.open/os.rename/replace/remove/unlink/link/truncate (a writer using other primitives is judged on observed directories only); premise: a complete checkpoint exists before the first modelled write."),

 "C13": dict(level="model_checking", design="4/C13",
   technique="TLA+ spec Loader.tla (Impl = transcription of remove_comments/process_object, Req = declarative requirement) model-checked with TLC over all documents in the bound; every TLC-emitted document replayed into the real loader (outcome, registry, object identity, process_object event sequence, values and update visibility)",
   text="TLC proves Impl = Req for every document over ids {a,b,c} up to nesting depth 3 (plus decorated documents with missing ids, ignored objects and comment keys), >31k documents in the quick tier; each of them is rendered with real classes in two flavours (Parameter/Cat/View/Transformed and Taxon/Taxa) and loaded as torchtree.main does, and the real outcome, registry, `is`-identity of every referenced object, event sequence and tensors before/after updates through the registry are compared with the spec.",
   note="Bound: 3 ids, depth<=3 (depth 4 / 4 ids in thorough), <=2 children per node; classes other than the six rendered ones are not enumerated (their from_json child order differs; C19 loads CLI documents); error kinds are not compared, only JSONParseError vs accept vs other exception."),
 "C11": dict(level="model_checking", design="4/C11",
   technique="TLA+ spec ModelGraph.tla instantiated with model graphs extracted from live torchtree objects (listener lists, handler tables probed on every flag valuation, probed reads and update roots); TLC explores all histories (finite flag state); state-graph transitions and counterexamples replayed on the real objects with flags compared to the spec state and every value compared with a freshly built copy",
   text="For each zoo graph (parameter zoo with views/concatenations/transformed parameters/parametric transforms/variational objectives; CLI-built phylogenetic posteriors) TLC checks NoStale/NeverRaises over every reachable cache-flag state under all update operations and evaluations of each projection; transition-covering walks over the TLC state graph are replayed on the real graph: real flags must equal the spec state (bisimulation check) and every evaluated value must equal a freshly built copy holding the same raw parameter values.",
   note="Graphs are the ones in the zoo (classes absent from them are not covered; listed in evidence samples); projections of <=4 ops x 7 evals per TLC run in the quick tier, walks cover a sample of the transitions (thorough: more walks, more zoos); variational objectives are evaluated under a fixed seed; proposals/rejections by samplers are exercised in C15."),
 "C15": dict(level="model_checking", design="4/C15",
   technique="TLA+ spec Mcmc.tla (one action per phase of MCMC.run) model-checked with TLC for every target function; trace validation of recorded real chains by TraceMcmc.tla (total validation naming the failing clause), records built from the TORCHTREE_VERIF hook, instance wrappers and independent measurements (fresh-copy target, recomputed Hastings ratio, recomputed acceptance rule, boldness before/after tuning)",
   text="TLC checks the loop invariants (carried density = target, proposal evaluated on target, rejection restores, logged rows consistent, non-finite never accepted, tuning direction with measured boldness signs) over all 26 target functions on 3 states x 2 operators; real chains for every operator type (sliding window, scaler, Dirichlet, GMRF block update, HMC diag/dense with AdaptiveStepSize / DualAveraging / MassMatrixAdaptor), mixtures, adaptation on/off, out-of-support proposals and CLI-built phylogenetic targets are recorded and every iteration is stepped through the spec's phase actions with the clauses of the property evaluated by TLC.",
   note="Density ids identify floats within relative 1e-9; fresh-copy target is a rebuild from JSON with the recorded raw parameter values; dual averaging and the running-rate step-size variant are not judged step by step (by design, see DESIGN C15); block-update Hastings ratio not recomputed independently; chains are finite samples of the schedule space (seeded)."),
 "C17": dict(level="model_checking", design="4/C17",
   technique="TLA+ spec Checkpoint.tla (run/checkpoint/die/restart/continue with a lossy channel) model-checked with TLC using constants measured on the real code per configuration; real restarts through torchtree.main compared leaf by leaf (state_dict, parameters, dtypes, nn flags), resumed vs uninterrupted parameter-state sequences, update counts",
   text="For every configuration (Optimizer x SGD+momentum/Adam/Adagrad/RMSprop/LBFGS x StepLR/LambdaLR x float32/float64 x nn.Parameter, ELBO objective, two-stage documents with several -c files; MCMC x sliding/scaler/Dirichlet/HMC diag+dense with AdaptiveStepSize/DualAveraging/MassMatrixAdaptor) the run is interrupted at every checkpoint, restarted through the command-line entry point, and every leaf of the run state is compared before/after, the resumed parameter-state sequence is compared with the uninterrupted run and the number of applied updates is compared; TLC explores every interruption point and repeated restarts of the loop bookkeeping for the measured constants and must agree with the real runs.",
   note="RNG state at the checkpoint is re-installed by the harness (the library does not checkpoint it); interruption points = iterations at which a checkpoint is written; Sampler and normalising-flow modules are not covered."),
 "C04": dict(level="exploration", design="4/C04",
   technique="TLA+ spec SubstQ.tla: exact-rational rate matrices of every model family, invariants (rows sum to zero, non-negative off-diagonals, unit rate, detailed balance, stationarity) model-checked with TLC over a parameter lattice; TLC-emitted exact Q replayed into the real models (q(), p_t vs mpmath expm of the spec's Q, consequences, batches, update histories); transliteration validated against TLC for off-lattice random and near-defective parameters",
   text="TLC proves the matrix invariants exactly on 54 lattice cases (JC69, GeneralJC69, HKY, GTR, general symmetric with every mapping on 3 states, general non-symmetric, empirical) and emits the exact normalised Q; the real models' q() must equal it (1e-12) and p_t(t) must equal expm(Qt) at six branch lengths (1e-9), plus rows/P(0)/semigroup/stationarity/detailed balance on the implementation's output, batched parameters vs slices, parameter-update histories on a live model, random parameters over 1e-4..1e4, near-defective non-reversible matrices, MG94 for the genetic codes against an independent structural definition and LG/WAG.",
   note="The TLA+ part decides the discrete structure and normalisation exactly; the matrix exponential itself is compared numerically against mpmath (30 digits) / numpy scaling-and-squaring: this is the numerical half stated in DESIGN 2.4. Genetic-code tables are taken from datatype.py."),
 "C01": dict(level="model_checking", design="4/C01",
   technique="TLA+ spec Pruning.tla (recursion over the transcribed post-order = definitional marginal, exact integers) model-checked with TLC over all ordered labelled trees x tip state sets; emitted cases replayed exactly into the five real kernels with the real tree model's post-order; model-level JSON TreeLikelihoodModels compared with the TLC-validated transliterated marginal using the spec's Q (C04) and category rates (C05)",
   text="TLC proves pruning = marginal for every ordered labelled tree of 3 and 4 taxa (child order and leaf-index assignment vary), 4 states, 2 categories, all tip-set choices (27k states); each emitted case must come out of calculate_treelikelihood_discrete / _rescaled / _safe / tip_states / tip_states_rescaled (and a batched call) as the exact integer; 480 model-level cases cover JC69/HKY/GTR/general symmetric/non-symmetric x constant/invariant/Weibull(+inv) x unrooted/time tree + strict/variable clock x tip partials/ambiguities/tip states on every topology of 3..4 (thorough: ..6, random 7-8) taxa with alignments over the 18-symbol alphabet and repeated columns, at 1e-9.",
   note="Exact integer matrices are not stochastic: the unknown-state column of the tip-state kernels is exercised at the model level only. Codon / amino-acid alphabets at the model level are not enumerated (kernels are alphabet-agnostic; rate matrices in C04). Reference matrices: mpmath expm (30 digits)."),
 "C05": dict(level="exploration", design="4/C05",
   technique="TLA+ spec SiteModel.tla: category layout / normalisation over exact rationals with quantile atoms and the lazy-cache state machine, model-checked with TLC; transliteration validated on emitted cases; real site models compared on a parameter grid, random points, batches and all set/read histories",
   text="TLC checks probabilities sum to one, invariant category (rate 0, probability p), mean rate = mu and cache coherence over all histories of length 4 for 31 lattice cases; the real Constant/Invariant/Weibull site models are compared with the reference for K in 1..16, shapes 1e-2..1e2, invariant proportions, relative rates (1e-11), batched parameters vs slices and every set/read history of length 4 on a live object.",
   note="The Weibull quantile is a transcendental leaf evaluated by the reference in double precision; the TLA+ part is the layout and normalisation algebra (thin), hence level exploration."),
 "C02": dict(level="model_checking", design="4/C02",
   technique="TLA+ spec Plumbing.tla (write-ups of one tree+alignment related by rewrite actions; transcription of leaf indexing, post-order, keep_branch_lengths root merge + zero branch, Alignment sort, pattern compression) model-checked with TLC; emitted write-ups rendered to JSON and evaluated by the real TreeLikelihoodModel (equal values, predicted post-order / branch lengths / patterns / weights / tip vectors = real)",
   text="TLC explores every write-up reachable by up to 5 (thorough 6) rewrites (permute taxa, permute sequence list, swap children anywhere, permute columns, move the root across a branch) from three reference instances (4 and 5 taxa, ambiguity / gap symbols, repeated columns) and checks that the rewrites preserve the unrooted splits-with-lengths and the column multiset and that the transcribed plumbing delivers the same tree and data to the kernel; a sub-sample of the write-ups (every one a distinct JSON document) is evaluated by the real model under HKY / GTR with tip partials, ambiguities and tip states and must agree to 1e-10 and match the predicted indices, lengths, patterns and weights.",
   note="Reversible models only (on an UnRootedTreeModel the root sits on a root child, so non-reversible models are root-dependent by construction); codon `indices` slicing of SitePattern is not covered; replay is a sub-sample of the TLC-checked write-ups."),
 "C03": dict(level="model_checking", design="4/C03",
   technique="TLA+ spec Rescale.tla (switch-to-rescaling logic over magnitude classes of the smallest site likelihood, single and batched, all histories) model-checked with TLC; real evaluation histories recorded on one model object and validated by TraceRescale.tla (total validation); size sweep against an extended-range log-space pruning reference",
   text="TLC checks Accurate / FiniteIfTrue / Sticky over all histories of 4 evaluations (single or batched mixtures of normal / subnormal / zero classes) for the switching policy the code follows (and flags the pinned-commit policy as a control); real TreeLikelihoodModels on 600-tip trees are driven through every class history of length <= 3 plus batched mixtures before and after the switch (tip partials and tip states), each event validated by TLC; a size sweep (8..800 tips, thorough ..1200; caterpillar / balanced / random; through both subnormal bands) compares every value at 1e-8 with the log-space reference.",
   note="Reference = float64 log-space pruning with the implementation's own transition matrices (only range handling differs); float64 only; classes are measured by the reference, not assumed."),
 "C06": dict(level="model_checking", design="4/C06",
   technique="TLA+ spec NodeHeights.tla (exact rationals; ratio and shift parameterisations on every ordered labelled tree x date vector x lattice parameters: valid time tree, inverse, Jacobian determinant) model-checked with TLC; emitted cases replayed exactly into real ReparameterizedTimeTreeModels (heights, branch lengths, transform, inverse, batches, device / dtype moves, in-place update histories)",
   text="TLC checks validity (tips at sampling heights, parent >= child, branch = parent - child), inverse(forward(x)) = x and the Jacobian determinant for every ordered labelled tree of 3 and 4 taxa (5 thorough), all date vectors of the lattice under both date conventions, and lattice parameters (64k states quick); >11k emitted cases are built from JSON and compared exactly; batched parameter sets [B] against slices including the batched inverse; cpu()/to(float32)/to(float64) must keep the parameterisation and the heights; in-place parameter updates followed by the notification must be followed by heights, branch lengths and the inverse.",
   note="Exactness relies on dyadic lattice values; n >= 5 only in the thorough tier and through C07's transliteration; no GPU (cuda() not exercised)."),
 "C07": dict(level="exploration", design="4/C07",
   technique="TLA+ specs NodeHeights.tla (Leibniz-expanded Jacobian determinant = closed form, exact) and Transforms.tla (composition rule for diagonal / cumulative patterns) model-checked with TLC; emitted exact determinants and the rule compared with the real transforms' log_abs_det_jacobian, inverse, model call and TransformedParameter call; autodiff Jacobian as the property's yardstick; validated transliteration for random trees of 5-12 taxa",
   text="For every emitted tree case the reported log-Jacobian and ReparameterizedTimeTreeModel() must be the log of the exact determinant (1e-12), single, batched, after parameter updates and after in-place updates; random heterochronous trees of 5..9 (thorough 12) taxa go through the transliteration validated against TLC; CumSum, CumSumExp, SoftPlus, CumSumSoftPlus, Log, log-rate-difference, Exp, Sigmoid, Affine, StickBreaking are compared at lattice and random points with the autodiff Jacobian (1e-9) and the closed form of the spec's rule, inverse(forward(x)) = x, and TransformedParameter() must return the log-Jacobian of its current value.",
   note="The TLA+ part proves the determinant structure exactly; exp / log / softplus leaves are numeric (autodiff in float64 is the yardstick named by the property). Transforms without both an inverse and a log-Jacobian are listed in the evidence as not invertible as shipped and not judged."),
 "C08": dict(level="model_checking", design="4/C08",
   technique="TLA+ spec Coalescent.tla (event bookkeeping of the piecewise-constant coalescents - unstable sort stepped by PickNext, running lineage count, piece index, slicing - against the Kingman definition, exact rationals) model-checked with TLC over all inputs of a lattice and all tie orders; emitted cases replayed into the real distributions in several supplied orders; non-constant demographies against numerical quadrature over a transliterated interval table validated against TLC",
   text="TLC checks, for every tie order of the sort, that the code's bookkeeping yields the Kingman integral, log terms and per-piece sufficient statistics for constant / skyride / skygrid on 3-4 (thorough 5) taxa with tied and serial sampling times, all valid coalescent time vectors on the grid and grids before the first coalescence, beyond the root and on event times (50k states); emitted cases are evaluated by ConstantCoalescent, PiecewiseConstantCoalescent, PiecewiseConstantCoalescentGrid with node heights permuted, plus sufficient statistics; model equivalences, the scaling law, JSON model classes and batches on random inputs; ExponentialCoalescent, PiecewiseLinearCoalescentGrid and PiecewiseExponentialCoalescentGrid against mpmath quadrature of 1/N(t) for n up to 10 (thorough 50) taxa.",
   note="Soft (temperature) variants not judged; grid point exactly on a coalescent time: either side accepted; N(t) of the non-constant classes is read from their code/docstrings (piecewise exponential: N(0)=theta, growth per grid piece; piecewise linear: values at 0 and grid points, constant beyond)."),
 "C20": dict(level="exploration", design="4/C20",
   technique="TLA+ specs Gmrf.tla (first-difference form = quadratic form of the weighted tridiagonal precision matrix, exact rationals) and Coalescent.tla (per-piece sufficient statistics regroup the interval terms) model-checked with TLC; emitted cases replayed into GMRF(), precision_matrix(), sufficient_statistics(); integrated priors against numerical integration of the defining products",
   text="TLC proves S(x) = x'Qx for every field of length 2..4 (thorough 5) over {-2..2} and every weight vector over {1,2,1/4} (50k states) and emits cases with exact S and Q; real GMRF densities (plain, weighted), the published precision matrix (entries and quadratic form), time-aware variants on random time trees with and without root-height rescaling, random fields up to length 50; GMRFGammaIntegrated (plain, weighted, batched) and ConstantCoalescentIntegrated vs mpmath quadrature; sufficient statistics and coalescent counts of both piecewise-constant coalescents vs the TLC-checked per-piece sums, single and batched.",
   note="Level exploration: the TLA+ part is the algebraic identity and the regrouping; densities with log/lgamma leaves are numeric. GMRFCovariate only through the shared precision matrix."),
 "C16": dict(level="model_checking", design="4/C16",
   technique="TLA+ spec Leapfrog.tla (the integrator on quadratic potentials, exact rationals: reversibility and determinant 1 of the linear map by Leibniz) model-checked with TLC; emitted exact end points replayed into the real LeapfrogIntegrator on Gaussian joints from shipped distributions (forward, then reverse on the same objects); HMCOperator.step against recorded momenta incl. failing and retried trials; geometric identities on non-quadratic targets",
   text="TLC proves Flow o Negate o Flow = Negate and det = 1 exactly for 48 lattice cases (dimension 1-2, diagonal / dense SPD potentials and inverse masses, step sizes 1/2 and 1/4, 1-3 steps); the real integrator must hit the exact end point (1e-12) and return to the start when run again with the negated momentum on the same Parameter objects; HMCOperator.step() must return K0 - K1 of the momentum of the successful trial and restart every retried trial from the saved position (90 retried steps in the quick tier on an untransformed gamma target); for Gaussian, log-gamma and mixed 8-dimensional targets with random SPD masses, step sizes 1e-3..0.2 and up to 12 (thorough 30) steps: round trip, Jacobian determinant of the flow, energy-error order.",
   note="32-bit TLC integers bound the exact lattice (small L, eps >= 1/4); volume preservation on non-quadratic targets uses central finite differences of the real flow (tolerance 1e-5); acceptance on the full Hamiltonian difference is decided together with C15's C_Decision / C_HastingsRatio clauses."),
}

PENDING = {}

def main():
    props = [json.loads(l) for l in open(os.path.join(V, "properties.jsonl"))]
    hooks_commits = []
    hp = os.path.join(V, "hooks_commits.txt")
    if os.path.exists(hp):
        hooks_commits = [l.split()[0] for l in open(hp) if l.strip()]
    checks = []
    for p in props:
        c = CHECKS.get(p["id"])
        if not c:
            continue
        checks.append({
            "property_id": p["id"],
            "quick_cmd": f"./check {p['id']} --tier quick",
            "thorough_cmd": f"./check {p['id']} --tier thorough",
            "evidence_file": f"/verif/evidence/{p['id']}.json",
            "replay_cmd_template": f"./check {p['id']} --replay {{path}}",
            "engine": "tlc+harness",
            "level_claimed": {"category": c["level"], "text": c["text"], "design_ref": c["design"]},
            "level_note": c["note"],
            "technique": c["technique"],
        })
    na = [{"property_id": p["id"], "reason": PENDING.get(p["id"], "check not built yet in this round (construction order in DESIGN.md 7a); not claimed until its TLA+ spec and conformance harness exist")}
          for p in props if p["id"] not in CHECKS]
    m = {
        "version": 1,
        "setup_cmd": "./setup.sh",
        "hooks": {
            "guard": "TORCHTREE_VERIF",
            "enable": "checks set TORCHTREE_VERIF=1 in their own process before importing torchtree from /repo (pure Python, nothing to build)",
            "baseline_off_cmd": "cd /repo && env -u TORCHTREE_VERIF /venv/bin/python -m pytest -ra -q -p no:cacheprovider --timeout=900 --continue-on-collection-errors",
            "source_commits": hooks_commits,
            "add_only": True,
        },
        "engines": [{"name": "tlc+harness", "path": "/verif/check",
                     "serves_properties": sorted(CHECKS),
                     "kind_free_text": "explicit TLA+ specifications (spec/*.tla) checked with TLC 1.8; Python conformance harness (harness/*.py) replaying TLC behaviours into torchtree and validating recorded torchtree traces against the specs"}],
        "checks": checks,
        "not_applicable": na,
        "notes": "Exit 0 held / 1 violation (VIOLATION line) / 2 machinery failure. known_findings.json lists recorded and fixed defects. VERIF_SEED seeds TLC simulation, Hypothesis and torch.",
    }
    with open(os.path.join(V, "MANIFEST.json"), "w") as f:
        json.dump(m, f, indent=1)
    print("checks:", len(checks), "not_applicable:", len(na))

if __name__ == "__main__":
    main()
