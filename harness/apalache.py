"""C18, unbounded: CheckpointFSInd.tla discharged with Apalache (inductive invariant), linked to CheckpointFS.tla by TLC.

1. apalache-mc: Init => IndInv (length 0), IndInv /\\ Next => IndInv' (length 1 from IndInit), IndInv => Safety.
2. Non-vacuity controls: IndInit has states (an invariant claiming the opposite is refuted), and a writer that replaces
   before closing (the seeded C18 change) breaks the inductive step.
3. TLC: for MaxWrites = 3 the reachable states of CheckpointFSInd (bounded by v <= 3) and of CheckpointFS with
   Protocol = "replace" project onto the same set of (fs, pc, v, good) tuples - the typed re-statement is the same
   machine.
Anything that fails here is a machinery failure or model drift, never a verdict about the code: the code is bound to
CheckpointFS.tla by the crash enumeration of harness/c18.py.
"""
from __future__ import annotations

import os
import re
import shutil
import subprocess

from . import tlc
from .common import Ctx, Machinery

SPEC = os.path.join(tlc.VERIF, "spec", "CheckpointFSInd.tla")
CONTROL = """---- MODULE MCI ----
EXTENDS CheckpointFSInd
ReplaceEarly == /\\ pc = "close" /\\ fs["new"].kind # "absent"
                /\\ fs' = [fs EXCEPT !["name"] = fs["new"], !["new"] = Absent]
                /\\ pc' = "idle" /\\ good' = v /\\ UNCHANGED v
NextBroken == Next \\/ ReplaceEarly
NeverIdle == pc # "idle"
====
"""


def apalache(wd, module, args, timeout=900):
    cmd = ["apalache-mc", "check"] + args + [f"--out-dir={os.path.join(wd, 'out')}", module]
    try:
        r = subprocess.run(cmd, cwd=wd, capture_output=True, text=True, timeout=timeout)
    except FileNotFoundError:
        raise Machinery("apalache-mc not found")
    except subprocess.TimeoutExpired:
        raise Machinery(f"apalache-mc timed out: {' '.join(args)}")
    out = r.stdout + r.stderr
    if "The outcome is: NoError" in out:
        return "ok"
    if re.search(r"The outcome is: Error", out):
        return "violated"
    raise Machinery(f"apalache-mc failed ({' '.join(args)}): {out[-400:]}")


def project(nodes, ind):
    out = set()
    for st in nodes.values():
        fs = st["fs"]

        def content(c):
            if ind:
                return (c["kind"], c["ver"])
            return (c[0], c[1] if len(c) > 1 else 0)
        out.add((tuple(sorted((k, content(v)) for k, v in fs.items())), st["pc"], st["v"], st["good"]))
    return out


def check(ctx: Ctx):
    wd = tlc.workdir("apa")
    try:
        shutil.copy(SPEC, wd)
        with open(os.path.join(wd, "MCI.tla"), "w") as f:
            f.write(CONTROL)
        obligations = [("base: Init => IndInv", "CheckpointFSInd.tla", ["--init=Init", "--inv=IndInv", "--length=0"], "ok"),
                       ("step: IndInv /\\ Next => IndInv'", "CheckpointFSInd.tla", ["--init=IndInit", "--inv=IndInv", "--length=1"], "ok"),
                       ("IndInv => Safety", "CheckpointFSInd.tla", ["--init=IndInit", "--inv=Safety", "--length=0"], "ok"),
                       ("control: IndInit is satisfiable", "MCI.tla", ["--init=IndInit", "--inv=NeverIdle", "--length=0"], "violated"),
                       ("control: replace-before-close breaks the step", "MCI.tla", ["--init=IndInit", "--next=NextBroken", "--inv=IndInv", "--length=1"], "violated")]
        results = {}
        for name, mod, args, want in obligations:
            got = apalache(wd, mod, args)
            results[name] = got
            if got != want:
                raise Machinery(f"Apalache obligation '{name}': expected {want}, got {got}")
        ctx.cov["apalache_inductive_invariant"] = {"spec": "spec/CheckpointFSInd.tla", "obligations": results,
                                                   "meaning": "Recoverable / LastGoodKept / NameNotTruncated hold for any number of writes and crashes of the replace protocol"}
        # the typed re-statement is the same machine as CheckpointFS.tla with Protocol = "replace"
        d = tlc.workdir("apa-tlc")
        t1, c1 = tlc.write_mc(d, "MC_Ind", "CheckpointFSInd", {}, ["INIT Init", "NEXT Next", "CONSTRAINT Bound", "CHECK_DEADLOCK FALSE"], extra_defs="Bound == v <= 3")
        r1 = tlc.run(t1, c1, workers=2, dump=os.path.join(d, "g1"), tag="apa", timeout=300)
        n1, _, _ = tlc.parse_dot(os.path.join(d, "g1.dot"))
        t2, c2 = tlc.write_mc(d, "MC_Fs", "CheckpointFS", {"Files": '{"name", "new", "old"}', "MaxWrites": "3", "Protocol": '"replace"', "Safely": "TRUE", "Overwrite": "FALSE"},
                              ["SPECIFICATION Spec", "VIEW View", "CHECK_DEADLOCK FALSE"])
        r2 = tlc.run(t2, c2, workers=2, dump=os.path.join(d, "g2"), tag="apa", timeout=300)
        n2, _, _ = tlc.parse_dot(os.path.join(d, "g2.dot"))
        shutil.rmtree(d, ignore_errors=True)
        ctx.tlc(r1, "CheckpointFSInd bounded by v <= 3")
        # the bounded Ind spec can start a 4th write (v = 4 is cut by the constraint after being generated): compare on v <= 3
        p1 = {s for s in project(n1, True) if s[2] <= 3}
        p2 = {s for s in project(n2, False) if not (s[1] == "idle" and False)}
        # CheckpointFS keeps `target`; drop nothing else
        if p1 != p2:
            only1, only2 = sorted(p1 - p2)[:2], sorted(p2 - p1)[:2]
            raise Machinery(f"CheckpointFSInd and CheckpointFS (replace) reach different states: only Ind {only1}, only FS {only2}")
        ctx.cov["apalache_inductive_invariant"]["tlc_cross_check_states"] = len(p1)
    finally:
        shutil.rmtree(wd, ignore_errors=True)
