"""C17 - a checkpoint restores the whole run state; resuming continues the same run.

1. TLC: Checkpoint.tla (loop / checkpoint / die / restart / continue with a lossy channel) -
   exhaustive over all interruption points and repeated restarts, instantiated with constants
   *measured* on the real code for each configuration (which components do not survive, where
   the resumed loop continues).
2. Real runs through the command-line entry point torchtree.main (in-process): for every
   configuration run A uninterrupted, run B1 up to a checkpoint, run B2 restarted with
   `-c checkpoint` (RNG state of A at the checkpoint re-installed).  Compared: every leaf of
   state_dict() and every parameter (value, dtype, nn flag) at the checkpoint vs after restart;
   the sequence of parameter states after the restart vs the uninterrupted run; the number of
   updates the resumed loop applies; restart must not raise.
"""
from __future__ import annotations

import contextlib
import copy
import hashlib
import io
import json
import os
import re
import shutil
import sys
import tempfile

from . import tlc
from .common import Ctx, Machinery, use_src
from . import c15

LEVEL = "model_checking"


# ------------------------------------------------------------------ configurations
def P(id_, tensor, **kw):
    d = {"id": id_, "type": "Parameter", "tensor": tensor}
    d.update(kw)
    return d


def opt_doc(algo, options, scheduler=None, dtype=None, nn=False, ckpt="ck.json", iters=6, freq=2, stochastic=False):
    kw = {}
    if dtype:
        kw["dtype"] = "torch." + dtype
    if nn:
        kw["nn"] = True
    norm = lambda i, x, loc: {"id": i, "type": "Distribution", "distribution": "torch.distributions.Normal", "x": x,
                              "parameters": {"loc": P(i + ".loc", [loc], **({"dtype": kw["dtype"]} if dtype else {})),
                                             "scale": P(i + ".scale", [1.5], **({"dtype": kw["dtype"]} if dtype else {}))}}
    doc = [norm("da", P("a", [3.0, -2.0], **kw), 0.5), norm("db", P("b", [1.0], **kw), -1.0),
           {"id": "joint", "type": "JointDistributionModel", "distributions": ["da", "db"]}]
    loss = "joint"
    params = ["a", "b"]
    if stochastic:
        q = lambda i, x: {"id": "q." + i, "type": "Distribution", "distribution": "torch.distributions.Normal", "x": x,
                          "parameters": {"loc": P("q." + i + ".loc", [0.1] * (2 if i == "a" else 1)),
                                         "scale": {"id": "q." + i + ".scale", "type": "TransformedParameter",
                                                   "transform": "torch.distributions.ExpTransform",
                                                   "x": P("q." + i + ".scale.unres", [-0.5] * (2 if i == "a" else 1))}}}
        doc += [{"id": "variational", "type": "JointDistributionModel", "distributions": [q("a", "a"), q("b", "b")]}]
        loss = {"id": "elbo", "type": "ELBO", "variational": "variational", "joint": "joint", "samples": 3}
        params = ["q.a.loc", "q.a.scale.unres", "q.b.loc", "q.b.scale.unres"]
    o = {"id": "opt", "type": "Optimizer", "algorithm": "torch.optim." + algo, "options": dict(options), "maximize": True,
         "loss": loss, "parameters": params, "iterations": iters, "checkpoint": ckpt, "checkpoint_frequency": freq}
    if scheduler:
        o["scheduler"] = dict(scheduler, id="sched", type="Scheduler")
    return doc + [o]


def two_stage_doc(ck1, ck2, iters=6, freq=2):
    """Two optimisation stages, each with its own checkpoint file and its own target."""
    norm = lambda i, x, loc: {"id": i, "type": "Distribution", "distribution": "torch.distributions.Normal", "x": x,
                              "parameters": {"loc": P(i + ".loc", [loc]), "scale": P(i + ".scale", [1.5])}}
    doc = [norm("da", P("a", [3.0, -2.0]), 0.5), {"id": "joint1", "type": "JointDistributionModel", "distributions": ["da"]},
           norm("db", P("b", [1.0]), -1.0), {"id": "joint2", "type": "JointDistributionModel", "distributions": ["db"]}]
    o1 = {"id": "opt1", "type": "Optimizer", "algorithm": "torch.optim.Adam", "options": {"lr": 0.1}, "maximize": True,
          "loss": "joint1", "parameters": ["a"], "iterations": iters, "checkpoint": ck1, "checkpoint_frequency": freq}
    o2 = {"id": "opt2", "type": "Optimizer", "algorithm": "torch.optim.SGD", "options": {"lr": 0.05, "momentum": 0.9}, "maximize": True,
          "loss": "joint2", "parameters": ["b"], "iterations": iters, "checkpoint": ck2, "checkpoint_frequency": freq}
    return doc + [o1, o2]


def mcmc_doc(kind, ckpt, iters, freq):
    if kind == "toy":
        # a short acceptance window: after a restart each operator makes more moves than the window holds
        ops = [c15.op("SlidingWindowOperator", "x.slide", "x", width=1.0, acceptance_window_length=3),
               c15.op("ScalerOperator", "s.scale", "s", scaler=0.5, acceptance_window_length=2),
               c15.op("DirichletOperator", "f.dir", "f", scaler=40.0)]
        doc = c15.toy_joint() + [c15.mcmc("joint", ops, iters, ["joint"])]
    else:
        doc = c15.hmc_doc(kind.startswith("hmc-dense"), {"hmc-diag": [], "hmc-dense-step-mass": ["stepsize", "mass"],
                                                         "hmc-diag-dual-mass": ["dual", "mass"], "hmc-diag-mass": ["mass"],
                                                         "hmc-diag-dual-closed": ["dual-closed"]}[kind])
    m = doc[-1]
    m.update(iterations=iters, checkpoint=ckpt, checkpoint_frequency=freq, every=0)
    m.pop("loggers", None)
    return doc


def configs(tier):
    out = []
    sched_step = {"scheduler": "torch.optim.lr_scheduler.StepLR", "step_size": 2, "gamma": 0.5}
    sched_lambda = {"scheduler": "torch.optim.lr_scheduler.LambdaLR", "lr_lambda": "lambda epoch: 1.0 / (1.0 + epoch)"}
    out.append(("opt-sgd-momentum", lambda ck, n, f: opt_doc("SGD", {"lr": 0.05, "momentum": 0.9}, ckpt=ck, iters=n, freq=f), {}))
    out.append(("opt-adam", lambda ck, n, f: opt_doc("Adam", {"lr": 0.1}, ckpt=ck, iters=n, freq=f), {}))
    out.append(("opt-adam-steplr", lambda ck, n, f: opt_doc("Adam", {"lr": 0.1}, scheduler=sched_step, ckpt=ck, iters=n, freq=f), {}))
    out.append(("opt-sgd-float32-nn", lambda ck, n, f: opt_doc("SGD", {"lr": 0.05}, dtype="float32", nn=True, ckpt=ck, iters=n, freq=f),
                {"dtype": "float32"}))
    out.append(("opt-adam-elbo", lambda ck, n, f: opt_doc("Adam", {"lr": 0.05}, ckpt=ck, iters=n, freq=f, stochastic=True), {}))
    out.append(("opt-lbfgs", lambda ck, n, f: opt_doc("LBFGS", {"lr": 0.5, "max_iter": 2}, ckpt=ck, iters=n, freq=f), {}))
    out.append(("mcmc-toy", lambda ck, n, f: mcmc_doc("toy", ck, n, f), {"n": 24, "f": 8}))
    out.append(("mcmc-hmc-dense-step-mass", lambda ck, n, f: mcmc_doc("hmc-dense-step-mass", ck, n, f), {"n": 16, "f": 8}))
    out.append(("mcmc-hmc-diag-dual-mass", lambda ck, n, f: mcmc_doc("hmc-diag-dual-mass", ck, n, f), {"n": 16, "f": 8}))
    out.append(("mcmc-hmc-diag-dual-closed", lambda ck, n, f: mcmc_doc("hmc-diag-dual-closed", ck, n, f), {"n": 16, "f": 8}))
    out.append(("two-stage", None, {}))
    if tier == "thorough":
        out.append(("opt-adagrad", lambda ck, n, f: opt_doc("Adagrad", {"lr": 0.1}, ckpt=ck, iters=n, freq=f), {}))
        out.append(("opt-rmsprop-lambdalr", lambda ck, n, f: opt_doc("RMSprop", {"lr": 0.01}, scheduler=sched_lambda, ckpt=ck, iters=n, freq=f), {}))
        out.append(("opt-adam-float32", lambda ck, n, f: opt_doc("Adam", {"lr": 0.1}, dtype="float32", ckpt=ck, iters=n, freq=f), {"dtype": "float32"}))
        out.append(("mcmc-hmc-diag", lambda ck, n, f: mcmc_doc("hmc-diag", ck, n, f), {"n": 12, "f": 4}))
        out.append(("mcmc-hmc-diag-mass", lambda ck, n, f: mcmc_doc("hmc-diag-mass", ck, n, f), {"n": 24, "f": 12}))
    return out


# ------------------------------------------------------------------ canonical snapshots
def canon(x, path=""):
    """Flatten a state structure into {path: tagged leaf}."""
    import collections
    import torch
    from torchtree.core.abstractparameter import AbstractParameter
    out = {}
    if isinstance(x, AbstractParameter):
        x = x.tensor
    if isinstance(x, torch.Tensor):
        t = x.detach()
        out[path] = ("tensor", str(t.dtype), tuple(t.shape), hashlib.sha1(t.cpu().contiguous().numpy().tobytes()).hexdigest()[:12],
                     isinstance(x, torch.nn.Parameter))
    elif isinstance(x, dict):
        for k, v in x.items():
            out.update(canon(v, f"{path}.{type(k).__name__}:{k}"))
        if not x:
            out[path] = ("emptydict",)
    elif isinstance(x, (list, tuple, collections.deque)):
        for i, v in enumerate(x):
            out.update(canon(v, f"{path}.{i}"))
        out[path + ".#len"] = ("len", len(x))
    elif isinstance(x, float):
        out[path] = ("float", repr(x))
    else:
        out[path] = (type(x).__name__, repr(x))
    return out


def norm_path(p):
    p = re.sub(r"\b(int|str):", "", p)
    p = re.sub(r"\.\d+", ".*", p)
    return ".".join(p.strip(".").split(".")[:4])


class Recorder:
    """Class-level wrappers around Optimizer.run / MCMC.run recording snapshots."""

    def __init__(self):
        self.events = []
        self.rng_at_ckpt = {}
        self.set_rng = None

    def install(self):
        import torch
        from torchtree.inference.mcmc.mcmc import MCMC
        from torchtree.optim.optimizer import Optimizer
        rec = self
        self._orig = (Optimizer.run, MCMC.run, Optimizer.save_full_state, MCMC.save_full_state)

        def params_of(alg):
            return {p.id: p for p in alg.parameters}

        def snap(alg, kind, label):
            rec.events.append({"kind": kind, "alg": alg.id, "label": label, "state": canon(alg.state_dict(), "state"),
                               "params": canon(params_of(alg), "param"),
                               "phash": hashlib.sha1(repr(sorted(canon(params_of(alg), "param").items())).encode()).hexdigest()[:12]})

        def opt_run(self_):
            snap(self_, "start", self_._epoch)
            if rec.set_rng is not None:
                torch.set_rng_state(rec.set_rng)
            ostep = self_.optimizer.step

            def step(*a, **kw):
                r = ostep(*a, **kw)
                snap(self_, "update", self_._epoch)
                return r
            self_.optimizer.step = step
            try:
                rec._orig[0](self_)
            finally:
                self_.optimizer.step = ostep

        def mcmc_run(self_):
            snap(self_, "start", self_._epoch)
            if rec.set_rng is not None:
                torch.set_rng_state(rec.set_rng)
            for o in self_._operators:
                otune = o.tune

                def tune(acceptance_prob, sample, accepted, otune=otune):
                    otune(acceptance_prob, sample=sample, accepted=accepted)
                    snap(self_, "update", self_._epoch)
                o.tune = tune
            rec._orig[1](self_)

        def nupd(alg):      # checkpoints are labelled by the number of updates applied so far in this process
            return sum(1 for e in rec.events if e["alg"] == alg.id and e["kind"] == "update")

        def opt_save(self_, checkpoint, safely=True, overwrite=False):
            rec._orig[2](self_, checkpoint, safely, overwrite)
            snap(self_, "ckpt", nupd(self_))
            rec.rng_at_ckpt[(self_.id, nupd(self_))] = torch.get_rng_state()

        def mcmc_save(self_):
            rec._orig[3](self_)
            snap(self_, "ckpt", nupd(self_))
            rec.rng_at_ckpt[(self_.id, nupd(self_))] = torch.get_rng_state()

        Optimizer.run, MCMC.run, Optimizer.save_full_state, MCMC.save_full_state = opt_run, mcmc_run, opt_save, mcmc_save

    def uninstall(self):
        from torchtree.inference.mcmc.mcmc import MCMC
        from torchtree.optim.optimizer import Optimizer
        Optimizer.run, MCMC.run, Optimizer.save_full_state, MCMC.save_full_state = self._orig


def run_main(doc, argv_extra, seed, wd, rec: Recorder, dtype=None):
    """torchtree.main in-process.  Returns (events, error)."""
    import torch
    import torchtree.torchtree as TT
    jp = os.path.join(wd, f"run{len(os.listdir(wd))}.json")
    with open(jp, "w") as f:
        json.dump(doc, f)
    argv = ["torchtree", jp, "-s", str(seed)] + (["--dtype", dtype] if dtype else []) + argv_extra
    old = sys.argv
    rec.events = []
    err = None
    cwd = os.getcwd()
    try:
        sys.argv = argv
        os.chdir(wd)
        with contextlib.redirect_stdout(io.StringIO()), contextlib.redirect_stderr(io.StringIO()):
            TT.main()
    except SystemExit as e:
        if e.code not in (0, None):
            err = f"SystemExit({e.code})"
    except Exception as e:
        err = f"{type(e).__name__}: {e}"
    finally:
        sys.argv = old
        os.chdir(cwd)
        torch.set_default_dtype(torch.float64)
    return list(rec.events), err


def set_iters(doc, n, alg_ids=None):
    d = copy.deepcopy(doc)
    for e in d:
        if isinstance(e, dict) and e.get("type") in ("Optimizer", "MCMC") and (alg_ids is None or e["id"] in alg_ids):
            e["iterations"] = n
    return d


def check_config(ctx: Ctx, name, mk, opts, wd, rec: Recorder):
    n, f = opts.get("n", 6), opts.get("f", 2)
    dtype = opts.get("dtype")
    ck = os.path.join(wd, "ck.json")
    if name == "two-stage":
        ck2 = os.path.join(wd, "ck2.json")
        doc = two_stage_doc(ck, ck2, n, f)
        cks = [ck, ck2]
    else:
        doc = mk(ck, n, f)
        cks = [ck]
    measured = {"lossy": set(), "resume_after_saved": True}

    def clean():
        for p in os.listdir(wd):
            if p.startswith("ck"):
                os.remove(os.path.join(wd, p))

    clean()
    rec.set_rng = None
    A, errA = run_main(doc, [], 11, wd, rec, dtype)
    if errA:
        ctx.violation(f"C17:{name}:run-raises", f"configuration {name}: the uninterrupted run raised {errA}", {"config": name})
        return measured
    rngA = dict(rec.rng_at_ckpt)
    algs = sorted({e["alg"] for e in A})
    for k in range(f, n, f):
        clean()
        rec.set_rng = None
        rec.rng_at_ckpt = {}
        B1, e1 = run_main(set_iters(doc, k), [], 11, wd, rec, dtype)
        if e1:
            raise Machinery(f"{name}: partial run raised {e1}")
        rngB = dict(rec.rng_at_ckpt)
        extra = []
        for c in cks:
            extra += ["-c", c]
        # restart; the RNG state of the first algorithm at its checkpoint is re-installed
        rec.set_rng = rngB.get((algs[0], k))
        B2, e2 = run_main(doc, extra, 11, wd, rec, dtype)
        rec.set_rng = None
        ctx.add("evaluations")
        ctx.distinct((name, k))
        if e2:
            ctx.violation(f"C17:{name}:restart-raises:{e2.split(':')[0]}", f"configuration {name}: restarting from the checkpoint written at iteration {k} raised {e2}",
                          {"config": name, "k": k})
            continue
        for alg in algs:
            a_ck = [e for e in A if e["alg"] == alg and e["kind"] == "ckpt" and e["label"] == k]
            b_ck = [e for e in B1 if e["alg"] == alg and e["kind"] == "ckpt" and e["label"] == k]
            b_start = [e for e in B2 if e["alg"] == alg and e["kind"] == "start"]
            if not a_ck or not b_ck or not b_start:
                raise Machinery(f"{name}/{alg}: missing events (A ckpt {len(a_ck)}, B ckpt {len(b_ck)}, B start {len(b_start)})")
            saved, restored = b_ck[0], b_start[0]
            if saved["phash"] != a_ck[0]["phash"]:
                raise Machinery(f"{name}/{alg}: the partial run is not a prefix of the uninterrupted run (non-deterministic harness)")
            # (1) restore identity, leaf by leaf
            for part in ("state", "params"):
                for path in sorted(set(saved[part]) | set(restored[part])):
                    sv, rv = saved[part].get(path), restored[part].get(path)
                    if sv != rv:
                        np_ = norm_path(path)
                        measured["lossy"].add(np_)
                        ctx.violation(f"C17:{name}:restore:{np_}",
                                      f"configuration {name}, checkpoint at iteration {k}: {path} was {sv} when the checkpoint was written "
                                      f"and is {rv} after restarting from it", {"config": name, "k": k, "path": path})
            # (2) resumed = uninterrupted (sequence of parameter states, by order)
            a_after = [e["phash"] for e in A if e["alg"] == alg and e["kind"] == "update"][k:]
            b_after = [e["phash"] for e in B2 if e["alg"] == alg and e["kind"] == "update"]
            m = min(len(a_after), len(b_after))
            if a_after[:m] != b_after[:m]:
                j = next(i for i in range(m) if a_after[i] != b_after[i])
                ctx.violation(f"C17:{name}:resumed-diverges",
                              f"configuration {name}: resumed from iteration {k}, the {j + 1}-th parameter state after the restart differs "
                              f"from the uninterrupted run", {"config": name, "k": k, "step": j + 1})
            # (2b) ... and so is the algorithm state at every later checkpoint (acceptance windows, adaptor statistics, counters)
            for e2 in [e for e in B2 if e["alg"] == alg and e["kind"] == "ckpt" and e["label"] > 0]:
                # (labels count the updates made in the process that wrote them: the resumed process starts again from 0)
                a2 = [e for e in A if e["alg"] == alg and e["kind"] == "ckpt" and e["label"] == k + e2["label"]]
                if not a2:
                    continue
                for path in sorted(set(a2[0]["state"]) | set(e2["state"])):
                    av, bv = a2[0]["state"].get(path), e2["state"].get(path)
                    if av != bv:
                        ctx.violation(f"C17:{name}:later-state:{norm_path(path)}",
                                      f"configuration {name}: resumed from iteration {k}, the state written {e2['label']} updates later has {path} = {str(bv)[:80]}, "
                                      f"the uninterrupted run has {str(av)[:80]}", {"config": name, "k": k, "later": e2["label"], "path": path})
                        break
            # (3) counter bookkeeping: the resumed loop must apply exactly the remaining updates
            if len(b_after) != len(a_after):
                measured["resume_after_saved"] = False
                ctx.violation(f"C17:{'mcmc' if name.startswith('mcmc') else 'optimizer'}:resumed-update-count",
                              f"configuration {name}: resumed from the checkpoint of iteration {k}, the loop applied {len(b_after)} updates "
                              f"where the uninterrupted run applies {len(a_after)} (the checkpointed iteration is repeated)",
                              {"config": name, "k": k})
    ctx.sample({"config": name, "events_A": [(e["kind"], e["label"]) for e in A][:14],
                "state_leaves": sorted(A[-1]["state"])[:8]}, limit=4)
    return measured


def adaptor_roundtrip_mixed_dtype(ctx: Ctx):
    """Checkpoint.tla's per-component round trip (save -> JSON -> load into a freshly built object = identity) for the mass-matrix
    adaptor when the parameters' dtype is not the process default (float64 parameters in a library session that never called
    set_default_dtype, or --dtype float32 with explicitly typed tensors): every tensor of the estimator keeps dtype and value."""
    import torch
    from torchtree import Parameter
    from torchtree.inference.hmc.adaptation import MassMatrixAdaptor
    prev = torch.get_default_dtype()
    try:
        for default in (torch.float32, torch.float64):
            for pdt in (torch.float64, torch.float32):
                for dense in (False, True):
                    torch.set_default_dtype(default)

                    def build():
                        x = Parameter("x", torch.tensor([0.3, -0.2, 0.8], dtype=pdt))
                        m = Parameter("m", torch.eye(3, dtype=pdt) if dense else torch.ones(3, dtype=pdt))
                        return x, MassMatrixAdaptor("a", [x], m, update_frequency=5)
                    x, a = build()
                    g = torch.Generator().manual_seed(3)
                    for i in range(12):
                        x.tensor = torch.randn(3, generator=g, dtype=torch.float64).to(pdt)
                        a.learn(torch.tensor(0.8), i, True)
                    sd = json.loads(json.dumps(a.state_dict()))
                    _, b = build()
                    ctx.add("adaptor_roundtrips_mixed_dtype")
                    tag = f"default {str(default)[6:]}, parameters {str(pdt)[6:]}, {'dense' if dense else 'diagonal'}"
                    try:
                        b.load_state_dict(sd)
                    except Exception as e:
                        ctx.violation(f"C17:mass-adaptor:roundtrip-raises:{'mixed' if default != pdt else 'uniform'}-dtype", f"{tag}: load_state_dict raised {type(e).__name__}: {e}", {"case": tag})
                        continue
                    for attr in ("_mean", "_variance"):
                        u, v = getattr(a.variance_estimator, attr), getattr(b.variance_estimator, attr)
                        if u.dtype != v.dtype or u.shape != v.shape or not torch.equal(u, v):
                            diff = float((u.double() - v.double()).abs().max()) if u.shape == v.shape else float("nan")
                            ctx.violation(f"C17:mass-adaptor:restore:variance_estimator.{attr}:{'mixed' if default != pdt else 'uniform'}-dtype",
                                          f"{tag}: after 12 learn() calls, state_dict -> JSON -> load_state_dict into a fresh adaptor gives {attr} of dtype {v.dtype} "
                                          f"(was {u.dtype}), largest difference {diff:.3g}", {"case": tag, "attribute": attr})
                    if b.variance_estimator.samples != a.variance_estimator.samples or b._call_counter != a._call_counter:
                        ctx.violation("C17:mass-adaptor:restore:counters", f"{tag}: samples / call counter {b.variance_estimator.samples} / {b._call_counter} after restore, "
                                      f"{a.variance_estimator.samples} / {a._call_counter} before", {"case": tag})
    finally:
        torch.set_default_dtype(prev)


def run_tlc(ctx, name, measured, n=4, f=2):
    d = tlc.workdir("c17")
    comps = ["params"] + sorted(measured["lossy"])
    t, c = tlc.write_mc(d, "MC_Checkpoint", "Checkpoint",
                        {"Iterations": str(n), "Freq": str(f), "Comps": tlc.tla(set(comps)), "Lossy": tlc.tla(set(measured["lossy"])),
                         "ResumeAfterSaved": tlc.tla(bool(measured["resume_after_saved"])), "MaxDeaths": "2"},
                        ["SPECIFICATION Spec", "INVARIANT RestoreIdentity", "INVARIANT ResumedIsUninterrupted",
                         "INVARIANT CounterBookkeeping", "INVARIANT FinishedExact"])
    res = tlc.run(t, c, workers=4, cont=True, coverage=True, tag="c17", timeout=600)
    shutil.rmtree(d, ignore_errors=True)
    ctx.tlc(res, f"Checkpoint {name}: lossy={sorted(measured['lossy'])} resume_after_saved={measured['resume_after_saved']}")
    return sorted({v.name for v in res.violations})


def run(ctx: Ctx):
    use_src()
    import logging
    logging.disable(logging.CRITICAL)
    ctx.assumptions += [
        "the RNG state at the checkpoint is re-installed at restart (the library does not checkpoint it; the property speaks of deterministic runs)",
        "interruption points are the iterations at which a checkpoint is written",
    ]
    work = tempfile.mkdtemp(prefix="c17-", dir=tlc.workdir("c17w"))
    rec = Recorder()
    rec.install()
    design = {}
    try:
        for name, mk, opts in configs(ctx.tier):
            wd = os.path.join(work, name)
            os.makedirs(wd)
            measured = check_config(ctx, name, mk, opts, wd, rec)
            ctx.add("traces_validated_against_impl")
            design[name] = run_tlc(ctx, name, measured)
            real_bad = bool(measured["lossy"]) or not measured["resume_after_saved"]
            if bool(design[name]) != real_bad:
                raise Machinery(f"{name}: TLC reports {design[name]} for the measured constants but the real runs show nothing")
    finally:
        rec.uninstall()
        shutil.rmtree(work, ignore_errors=True)
    ctx.cov["design_level_violations_by_config"] = design
    # growth of the specification: the optimiser loop itself (Optimizer.tla), whose checkpoint positions this property relies on
    from . import optloop
    optloop.check(ctx, ctx.tier == "quick")
    adaptor_roundtrip_mixed_dtype(ctx)
    ctx.cov["rule"] = "one case per (configuration, interruption point); all leaves of state_dict and all parameters compared"
