"""Optimizer.tla <-> optim/optimizer.py: Optimizer._run.

TLC explores the loop (N iterations, Trials retries, checkpoint frequency, with / without convergence check and
scheduler); complete behaviours are taken from the dumped state graph; the environment's choices along a behaviour
(is the gradient finite at this trial? does the convergence check say stop?) are scripted into stub collaborators
of the REAL Optimizer (a recording torch optimiser that updates parameters in place, a loss whose gradient is NaN on
demand, a convergence object that evaluates the loss, a scheduler); the event sequence the real loop produces must
be the `log` of the behaviour, every evaluation must see notified parameters, and every checkpoint must store
iteration = updates + 1.
"""
from __future__ import annotations

import os
import random
import shutil

from . import tlc
from .common import Ctx, Machinery


def graph(n, trials, freq, conv, sched, ckpt):
    d = tlc.workdir("opt")
    b = lambda x: "TRUE" if x else "FALSE"
    t, c = tlc.write_mc(d, "MC_Optimizer", "Optimizer",
                        {"N": str(n), "Trials": str(trials), "Freq": str(freq), "WithConv": b(conv), "WithSched": b(sched), "WithCkpt": b(ckpt)},
                        ["SPECIFICATION Spec", "INVARIANT EvalSeesNotified", "INVARIANT CkptResumable", "INVARIANT Bounded", "CHECK_DEADLOCK FALSE"])
    res = tlc.run(t, c, workers=4, cont=True, dump=os.path.join(d, "graph"), tag="opt", timeout=600)
    nodes, edges, init = tlc.parse_dot(os.path.join(d, "graph.dot"))
    # the deviation: NoBlindStep
    t2, c2 = tlc.write_mc(d, "MC_OptimizerB", "Optimizer",
                          {"N": str(n), "Trials": str(trials), "Freq": str(freq), "WithConv": b(conv), "WithSched": b(sched), "WithCkpt": b(ckpt)},
                          ["SPECIFICATION Spec", "VIEW View", "INVARIANT NoBlindStep", "CHECK_DEADLOCK FALSE"])
    res2 = tlc.run(t2, c2, workers=4, tag="opt", timeout=600)
    shutil.rmtree(d, ignore_errors=True)
    return res, nodes, edges, init, res2


def behaviours(nodes, edges, init, rnd, count):
    out_e = {}
    for a, b, lab in edges:
        out_e.setdefault(a, []).append((b, lab))
    unvisited = set(edges)
    res = []
    while len(res) < count:
        cur, path = init[0], []
        for _ in range(400):
            outs = out_e.get(cur, [])
            if not outs:
                break
            fresh = [e for e in outs if (cur, e[0], e[1]) in unvisited]
            nxt, lab = rnd.choice(fresh) if fresh else rnd.choice(outs)
            unvisited.discard((cur, nxt, lab))
            path.append((lab, nodes[cur], nodes[nxt]))
            cur = nxt
        if nodes[cur]["pc"] == "done":
            res.append(path)
        if not unvisited and len(res) >= 3:
            break
    return res, len(unvisited)


def blind_behaviour(nodes, edges, init, rnd):
    """A behaviour in which every retry fails (shortest path to a blind step, then on to termination)."""
    from collections import deque
    out_e = {}
    for a, b, lab in edges:
        out_e.setdefault(a, []).append((b, lab))
    prev = {init[0]: None}
    dq = deque([init[0]])
    goal = None
    while dq:
        u = dq.popleft()
        if nodes[u]["blind"]:
            goal = u
            break
        for v, lab in out_e.get(u, []):
            if v not in prev:
                prev[v] = (u, lab)
                dq.append(v)
    if goal is None:
        return None
    path = []
    u = goal
    while prev[u] is not None:
        pu, lab = prev[u]
        path.append((lab, nodes[pu], nodes[u]))
        u = pu
    path.reverse()
    cur = goal
    for _ in range(2000):
        outs = out_e.get(cur, [])
        if not outs:
            break
        good = [e for e in outs if not (e[1] == "Trial" and not nodes[e[0]]["gradok"])] or outs
        nxt, lab = rnd.choice(good)
        path.append((lab, nodes[cur], nodes[nxt]))
        cur = nxt
    return path if nodes[cur]["pc"] == "done" else None


def run_real(path, n, freq, conv, sched, ckpt, workdir):
    """Drive the real Optimizer along one behaviour; returns (events, problems)."""
    import torch
    from torchtree import Parameter
    from torchtree.core.model import CallableModel
    from torchtree.optim.optimizer import Optimizer
    grads = [bool(after["gradok"]) for lab, before, after in path if lab == "Trial"]
    keeps = [after["pc"] != "finish" for lab, before, after in path if lab == "Conv"]
    events, problems = [], []
    state = {"silent": False, "updates": 0, "gi": 0, "ki": 0}
    p0, p1 = Parameter("p0", torch.tensor([0.5, 1.5])), Parameter("p1", torch.tensor([2.0]))

    class Spy:
        def handle_parameter_changed(self, variable, index, event):
            events.append("notify")
            state["silent"] = False
    p0.add_parameter_listener(Spy())

    class Loss(CallableModel):
        def __init__(self):
            super().__init__("loss")
            self.p0, self.p1 = p0, p1
            self.samples = torch.Size([1])

        def _call(self, *a, **k):
            if state["silent"]:
                problems.append("an evaluation happened while an in-place update had not been notified")
            if "samples" in k:            # the convergence check: no gradient needed
                return (self.p0.tensor.sum() + self.p1.tensor.sum()).detach()
            events.append("loss")
            ok = grads[state["gi"]] if state["gi"] < len(grads) else True
            state["gi"] += 1
            w = 1.0 if ok else float("nan")
            return (self.p0.tensor * w).sum() + self.p1.tensor.sum()

        def handle_parameter_changed(self, variable, index, event):
            self.lp_needs_update = True

        def handle_model_changed(self, *a):
            self.lp_needs_update = True

        def _sample_shape(self):
            return torch.Size([])

        @classmethod
        def from_json(cls, data, dic):
            raise NotImplementedError

    class RecOpt(torch.optim.Optimizer):
        def __init__(self, params):
            super().__init__(params, {})

        def step(self, closure=None):
            events.append("step")
            with torch.no_grad():
                for g in self.param_groups:
                    for p in g["params"]:
                        p.add_(0.25)
            state["silent"] = True
            state["updates"] += 1

    class Conv:
        samples = torch.Size([2])

        def __init__(self, loss):
            self.loss = loss

        def check(self, iteration, *a, **k):
            events.append("conv")
            with torch.no_grad():
                self.loss.lp_needs_update = True
                self.loss(samples=self.samples)
            if iteration == 0:
                return True
            keep = keeps[state["ki"]] if state["ki"] < len(keeps) else True
            state["ki"] += 1
            return keep

    class Sched:
        def step(self):
            events.append("sched")

        def state_dict(self):
            return {}

    class Opt(Optimizer):
        def save_full_state(self, checkpoint, safely=True, overwrite=False):
            events.append("ckpt")
            st = self.state_dict()
            if st["iteration"] != state["updates"] + 1:
                problems.append(f"checkpoint after {state['updates']} updates stores iteration {st['iteration']}")
    loss = Loss()
    kw = {"maximize": True, "checkpoint_frequency": freq}
    if ckpt:
        kw["checkpoint"] = os.path.join(workdir, "ck.json")
    if conv:
        kw["convergence"] = Conv(loss)
    if sched:
        kw["scheduler"] = Sched()
    o = Opt("opt", [p0, p1], loss, RecOpt([p0.tensor, p1.tensor]), n, **kw)
    events.append("init")
    import contextlib
    import io
    with contextlib.redirect_stdout(io.StringIO()):
        o.run()
    events.append("close")
    if state["silent"]:
        problems.append("the run ended with an in-place update that was never notified")
    return events, problems, state["updates"]


def check(ctx: Ctx, quick: bool):
    rnd = random.Random(ctx.seed + 171)
    configs = [(3, 3, 2, True, True, True), (2, 10, 1, False, False, True)] if quick else \
        [(3, 3, 2, True, True, True), (2, 2, 1, False, False, True), (3, 2, 1, True, False, True), (4, 2, 3, False, True, False), (3, 10, 2, True, True, True)]
    wd = tlc.workdir("optrun")
    try:
        for n, trials, freq, conv, sched, ckpt in configs:
            res, nodes, edges, init, res2 = graph(n, trials, freq, conv, sched, ckpt)
            ctx.tlc(res, f"Optimizer N={n} Trials={trials} Freq={freq} conv={conv} sched={sched} ckpt={ckpt}")
            if res.violations:
                raise Machinery(f"Optimizer.tla violates {res.violations[0].name}")
            if trials != 10 and not quick:
                pass
            blind = bool(res2.violations)
            paths, left = behaviours(nodes, edges, init, rnd, 40 if quick else 400)
            ctx.cov.setdefault("optimizer_loop", []).append({"config": [n, trials, freq, conv, sched, ckpt], "behaviours": len(paths), "edges": len(edges),
                                                              "edges_not_walked": left, "NoBlindStep_counterexample": blind})
            if trials != 10:
                # the code's retry count is fixed at 10: only N, Freq and the switches can be set on the real object; behaviours of a
                # smaller Trials are still code behaviours when the script never needs more than `trials` retries ... which it would:
                # replay only behaviours without exhausted retries
                paths = [p for p in paths if not any(after["blind"] for _, _, after in p)]
            if trials == 10:
                bp = blind_behaviour(nodes, edges, init, rnd)
                if bp is None:
                    raise Machinery("no behaviour with exhausted retries in the Trials = 10 graph")
                paths.append(bp)
                ctx.add("optimizer_blind_step_behaviours")
            for p in paths:
                want = list(p[-1][2]["log"])
                events, problems, updates = run_real(p, n, freq, conv, sched, ckpt, wd)
                ctx.add("optimizer_behaviours_replayed")
                for pr in problems:
                    if pr.startswith("checkpoint"):
                        ctx.violation("C17:optimizer-loop:checkpoint-iteration", f"Optimizer._run: {pr}", {"config": [n, trials, freq, conv, sched, ckpt]})
                    elif ctx.pid == "C11":
                        # C11: in-place optimiser steps are followed by the change notification before anything is evaluated
                        ctx.violation("C11:optimizer-loop:step-not-notified", f"Optimizer._run: {pr}", {"config": [n, trials, freq, conv, sched, ckpt]})
                    else:
                        ctx.note(f"MODEL-DRIFT bind:optimizer-loop {pr}")
                        ctx.add("model_drift")
                if events != want:
                    k = next((i for i, (a, b) in enumerate(zip(events, want)) if a != b), min(len(events), len(want)))
                    ctx.note(f"MODEL-DRIFT bind:optimizer-loop events diverge from Optimizer.tla at position {k}: real {events[max(0, k - 2):k + 3]}, spec {want[max(0, k - 2):k + 3]} "
                             f"(config {[n, trials, freq, conv, sched, ckpt]})")
                    ctx.add("model_drift")
                else:
                    ctx.add("optimizer_behaviours_matching")
    finally:
        shutil.rmtree(wd, ignore_errors=True)
