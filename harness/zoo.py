"""Builds torchtree model graphs (JSON and live objects) through the real CLI, in-process."""
from __future__ import annotations

import contextlib
import copy
import io
import json
import os
import sys

FIX = os.path.join(os.path.dirname(os.path.dirname(os.path.abspath(__file__))), "fixtures")


def cli_json(argv: list[str]):
    """Run torchtree-cli in-process with argv; returns the emitted JSON (list)."""
    from torchtree.cli import cli
    old = sys.argv
    buf = io.StringIO()
    err = io.StringIO()
    try:
        sys.argv = ["torchtree-cli"] + list(argv)
        with contextlib.redirect_stdout(buf), contextlib.redirect_stderr(err):
            try:
                cli.main()
            except SystemExit as e:
                if e.code not in (0, None):
                    raise RuntimeError(f"cli exited {e.code}: {err.getvalue()[-500:]}")
    finally:
        sys.argv = old
    return json.loads(buf.getvalue())


def evo_args(fasta="t6.fa", tree="t6.nwk", dated=True):
    a = ["-i", os.path.join(FIX, fasta), "-t", os.path.join(FIX, tree)]
    if dated:
        a += ["--date_regex", r"_(\d+)$"]
    return a


def load(doc, upto=None):
    """Load a JSON document like torchtree.main (without running); returns registry."""
    from torchtree.core.utils import expand_plates, process_objects, remove_comments
    data = copy.deepcopy(doc)
    remove_comments(data)
    expand_plates(data)
    dic = {}
    for element in data:
        if upto is not None and isinstance(element, dict) and element.get("id") == upto:
            break
        process_objects(element, dic)
    return dic


def find(doc, id_):
    """Find the JSON dict with the given id anywhere in doc."""
    if isinstance(doc, list):
        for e in doc:
            r = find(e, id_)
            if r is not None:
                return r
    elif isinstance(doc, dict):
        if doc.get("id") == id_:
            return doc
        for v in doc.values():
            r = find(v, id_)
            if r is not None:
                return r
    return None
