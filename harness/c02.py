"""C02 - the likelihood is invariant to how the same tree and data are written down.

1. TLC: Plumbing.tla - from a reference write-up, every sequence of rewrites (permute taxa,
   permute the sequence list, swap children, permute columns, move the root across a branch) up
   to a depth; invariants: the rewrites preserve the meaning (unrooted splits with lengths,
   multiset of columns) and the transcribed plumbing (leaf index by taxon name, post-order
   indices, keep_branch_lengths merge + zero root branch, Alignment sort, pattern compression)
   delivers the same tree and data to the kernel for every write-up.
2. spec -> code: emitted write-ups are rendered to JSON and evaluated by the real
   TreeLikelihoodModel: all values of one reference agree (1e-10; root moves for reversible
   models only), tip states = tip partials when ambiguous symbols are missing data, and the spec's
   predicted post-order, effective branch lengths, patterns and weights equal the real objects'.
"""
from __future__ import annotations

import json
import math
import random
import shutil

from . import tlc
from .common import Ctx, Machinery, use_src

LEVEL = "model_checking"
ORD = '("A" :> 65 @@ "C" :> 67 @@ "G" :> 71 @@ "T" :> 84 @@ "R" :> 82 @@ "Y" :> 89 @@ "N" :> 78 @@ "-" :> 45)'

REFS = [
    dict(name="balanced4", names=["a", "b", "c", "d"],
         tree=("N", ("N", ("L", "a", 1), ("L", "b", 2), 3), ("N", ("L", "c", 4), ("L", "d", 5), 6), 0),
         cols=[dict(a="A", b="A", c="C", d="R"), dict(a="C", b="-", c="C", d="A"), dict(a="A", b="A", c="C", d="R")], depth=5, mod=7),
    dict(name="ladder4", names=["d", "a", "c", "b"],
         tree=("N", ("N", ("N", ("L", "a", 2), ("L", "b", 1), 4), ("L", "c", 3), 2), ("L", "d", 7), 0),
         cols=[dict(a="G", b="A", c="Y", d="T"), dict(a="-", b="A", c="N", d="A"), dict(a="C", b="C", c="C", d="T")], depth=5, mod=7),
    dict(name="five", names=["p", "q", "r", "s", "t"],
         tree=("N", ("N", ("L", "p", 1), ("N", ("L", "q", 2), ("L", "r", 3), 2), 1), ("N", ("L", "s", 4), ("L", "t", 1), 5), 0),
         cols=[dict(p="A", q="C", r="G", s="T", t="A"), dict(p="A", q="A", r="R", s="-", t="A")], depth=4, mod=11),
]
SCALE = 0.05          # integer lengths of the spec -> branch lengths


def tla_tree(t):
    if t[0] == "L":
        return f'<<"L", "{t[1]}", {t[2]}>>'
    return f'<<"N", {tla_tree(t[1])}, {tla_tree(t[2])}, {t[3]}>>'


def tla_cols(cols):
    return "<<" + ", ".join("(" + " @@ ".join(f'"{k}" :> "{v}"' for k, v in c.items()) + ")" for c in cols) + ">>"


def run_tlc(ref, emit):
    d = tlc.workdir("c02")
    invs = ["CanonConstant", "SameTreeReachesKernel", "SameDataReachesKernel", "WeightsCountColumns", "ZeroBranchIsRootChild"]
    t, c = tlc.write_mc(d, "MC_Plumbing", "Plumbing",
                        {"Names": tlc.tla(ref["names"]), "Tree0": tla_tree(ref["tree"]), "Cols0": tla_cols(ref["cols"]), "Ord": ORD,
                         "MaxDepth": str(ref["depth"]), "Emit": "TRUE" if emit else "FALSE", "EmitMod": str(ref["mod"])},
                        ["SPECIFICATION Spec", "VIEW View"] + ([] if emit else [f"INVARIANT {i}" for i in invs]),
                        extra_defs="View == <<taxa, seqs, tree, cols, rootMoved>>")
    res = tlc.run(t, c, workers=8 if emit else 16, coverage=not emit, tag="c02", timeout=1500)
    shutil.rmtree(d, ignore_errors=True)
    return res


def newick(t):
    if t[0] == "L":
        return f"{t[1]}:{t[2] * SCALE}"
    inner = "(" + newick(t[1]) + "," + newick(t[2]) + ")"
    return inner + (f":{t[3] * SCALE}" if t[3] is not None else "")


def render(case, model, tipmode):
    names = list(case["taxa"])
    seq = {nm: "".join(col[nm] for col in case["cols"]) for nm in names}
    tree = case["tree"]
    nwk = "(" + newick(tree[1]) + "," + newick(tree[2]) + ");"
    n = len(names)
    subst = {"HKY": {"id": "sm", "type": "HKY", "kappa": {"id": "sm.kappa", "type": "Parameter", "tensor": [3.0]},
                     "frequencies": {"id": "sm.freqs", "type": "Parameter", "tensor": [0.1, 0.2, 0.3, 0.4]}},
             "GTR": {"id": "sm", "type": "GTR", "rates": {"id": "sm.rates", "type": "Parameter", "tensor": [0.4, 2.1, 0.7, 1.3, 3.0, 1.0]},
                     "frequencies": {"id": "sm.freqs", "type": "Parameter", "tensor": [0.35, 0.15, 0.2, 0.3]}},
             "NONREV": {"id": "sm", "type": "GeneralNonSymmetricSubstitutionModel", "data_type": "dt",
                        "mapping": list(range(12)), "rates": {"id": "sm.rates", "type": "Parameter", "tensor": [1.0, 2.0, 0.3, 0.7, 1.5, 3.0, 0.2, 0.9, 1.1, 2.5, 0.6, 1.7]},
                        "frequencies": {"id": "sm.freqs", "type": "Parameter", "tensor": [0.3, 0.2, 0.1, 0.4]}}}[model]
    like = {"id": "like", "type": "TreeLikelihoodModel",
            "tree_model": {"id": "tree", "type": "UnRootedTreeModel", "newick": nwk, "taxa": "taxa", "keep_branch_lengths": True,
                           "branch_lengths": {"id": "bl", "type": "Parameter", "tensor": [0.0] * (2 * n - 3)}},
            "site_model": {"id": "site", "type": "WeibullSiteModel", "categories": 2, "shape": {"id": "sh", "type": "Parameter", "tensor": [0.7]}},
            "substitution_model": subst,
            "site_pattern": {"id": "patterns", "type": "SitePattern", "alignment": "alignment"}}
    if tipmode == "states":
        like["use_tip_states"] = True
    elif tipmode == "ambiguities":
        like["use_ambiguities"] = True
    return [{"id": "taxa", "type": "Taxa", "taxa": [{"id": nm, "type": "Taxon"} for nm in names]},
            {"id": "dt", "type": "NucleotideDataType"},
            {"id": "alignment", "type": "Alignment", "datatype": "dt", "taxa": "taxa",
             "sequences": [{"taxon": nm, "sequence": seq[nm]} for nm in case["seqs"]]},
            like]



def alphabet_sweep(ctx: Ctx):
    """The symbol classes of Plumbing.tla (plain state / ambiguity code / gap / unknown) on the shipped alphabets, one symbol at a
    time: a write-up that spells 'nothing known here' with an ambiguity code, a gap, '?' or an unknown letter is the same data
    when ambiguities are treated as missing, so tip states, tip partials and the explicitly masked alignment must agree; a plain
    state must not be masked by either representation."""
    import torch
    from torchtree.evolution.tree_likelihood import TreeLikelihoodModel
    nwk = "((A:0.21,B:0.13):0.08,(C:0.17,D:0.3):0.09);"
    kinds = {"AminoAcidDataType": ("ACDEFGHIKLMNPQRSTVWY", "BZXJUO*-?.", {"id": "m", "type": "LG"}),
             "NucleotideDataType": ("ACGT", "RYMKSWHBVDNU-?.", {"id": "m", "type": "JC69"})}

    def like(dt, subst, seqs, states):
        taxa = {"id": "taxa", "type": "Taxa", "taxa": [{"id": t, "type": "Taxon"} for t in "ABCD"]}
        model = {"id": "like", "type": "TreeLikelihoodModel", "use_ambiguities": False, "use_tip_states": states,
                 "tree_model": {"id": "tree", "type": "UnRootedTreeModel", "newick": nwk, "keep_branch_lengths": True, "taxa": taxa,
                                "branch_lengths": {"id": "branches", "type": "Parameter", "tensor": [0.0]}},
                 "site_model": {"id": "sm", "type": "ConstantSiteModel"}, "substitution_model": dict(subst),
                 "site_pattern": {"id": "sp", "type": "SitePattern",
                                  "alignment": {"id": "alignment", "type": "Alignment", "datatype": {"id": "dt", "type": dt}, "taxa": "taxa",
                                                "sequences": [{"taxon": t, "sequence": q} for t, q in seqs.items()]}}}
        return float(TreeLikelihoodModel.from_json(model, {})())

    for dt, (plain, others, subst) in kinds.items():
        base = {"A": plain[0] + plain[1] + plain[2], "B": plain[0] + plain[2] + plain[2], "C": plain[1] + plain[1] + plain[3], "D": plain[0] + plain[1] + plain[3]}
        for sym in plain + others + plain.lower()[:3]:
            for lower in (False, True) if sym.isalpha() and sym in others else (False,):
                ch = sym.lower() if lower else sym
                seqs = dict(base, D=base["D"][:1] + ch + base["D"][2:])
                is_plain = sym.upper() in plain
                if dt == "NucleotideDataType" and sym.upper() == "U":
                    is_plain = True
                masked = seqs if is_plain else dict(base, D=base["D"][:1] + "?" + base["D"][2:])
                ctx.add("alphabet_symbols_swept")
                try:
                    vals = {"tip partials": like(dt, subst, seqs, False), "tip states": like(dt, subst, seqs, True),
                            "masked, tip partials": like(dt, subst, masked, False), "masked, tip states": like(dt, subst, masked, True)}
                except Exception as e:
                    ctx.cov.setdefault("alphabet_symbols_raising", []).append(f"{dt} {ch!r}: {type(e).__name__}")
                    continue
                ref = vals["masked, tip partials"]
                if any(abs(v - ref) > 1e-10 * max(1.0, abs(ref)) for v in vals.values()):
                    cls = "plain" if is_plain else "ambiguity-or-missing"
                    ctx.violation(f"C02:alphabet:{dt}:{cls}:{sym.upper()}", f"{dt}: symbol {ch!r} with ambiguities treated as missing: {vals}", {"datatype": dt, "symbol": ch, "sequences": seqs})
                if not is_plain:
                    # and it must not be taken for a plain state: replacing it by a plain state changes the value
                    pass


def to_py_tree(t):
    return ("L", t[1], t[2]) if t[0] == "L" else ("N", to_py_tree(t[1]), to_py_tree(t[2]), t[3])


def evaluate(ctx: Ctx, ref, case, model, tipmode, check_predictions):
    import torch
    from torchtree.core.utils import process_object
    from torchtree.evolution.datatype import NucleotideDataType
    c = dict(case, tree=to_py_tree(case["tree"]))
    doc = render(c, model, tipmode)
    dic = {}
    try:
        for e in doc:
            process_object(e, dic)
        like = dic["like"]
        val = float(like())
    except Exception as e:
        ctx.violation(f"C02:{ref['name']}:raises:{model}:{tipmode}", f"write-up raised {type(e).__name__}: {e}; json={json.dumps(doc)[:500]}", {"doc": doc})
        return None
    ctx.add("evaluations")
    if check_predictions:
        tm = dic["tree"]
        post = [list(map(int, t)) for t in tm.postorder]
        if post != [list(t) for t in case["post"]]:
            ctx.violation(f"C02:{ref['name']}:postorder", f"real post-order {post} differs from the predicted {case['post']}; newick={doc[3]['tree_model']['newick']} taxa={case['taxa']}",
                          {"doc": doc})
        eff = torch.cat((tm.branch_lengths(), torch.zeros(1))).tolist()
        want = [x * SCALE for x in case["eff"]]
        if any(abs(a - b) > 1e-12 for a, b in zip(eff, want)) or len(eff) != len(want):
            ctx.violation(f"C02:{ref['name']}:branch-lengths", f"effective branch lengths by node index {eff} differ from the predicted {want}; "
                          f"newick={doc[3]['tree_model']['newick']} taxa={case['taxa']}", {"doc": doc})
        w = [int(x) for x in like.weights.tolist()]
        if w != list(case["weights"]):
            ctx.violation(f"C02:{ref['name']}:weights", f"pattern weights {w} differ from the predicted {case['weights']}", {"doc": doc})
        elif tipmode != "states":
            dt = NucleotideDataType(None)
            for i in range(len(case["taxa"])):
                got = like.partials[i].t().tolist()
                exp = [list(dt.partial(p[i], tipmode == "ambiguities")) for p in case["patterns"]]
                if got != exp:
                    ctx.violation(f"C02:{ref['name']}:tip-data", f"tip vectors at leaf index {i} (taxon {case['taxa'][i]}) are {got}, predicted {exp} "
                                  f"for patterns {case['patterns']}", {"doc": doc})
                    break
    return val


def run(ctx: Ctx):
    use_src()
    import logging
    logging.disable(logging.CRITICAL)
    quick = ctx.tier == "quick"
    refs = REFS[:2] if quick else REFS
    for ref in refs:
        if not quick:
            ref = dict(ref, depth=ref["depth"] + 1, mod=ref["mod"] * 3)
        res = run_tlc(ref, False)
        ctx.tlc(res, f"Plumbing {ref['name']} depth {ref['depth']}")
        if res.violations:
            names = sorted({v.name for v in res.violations})
            if "CanonConstant" in names:
                raise Machinery("Plumbing.tla: a rewrite changes the meaning (spec error)")
            raise Machinery(f"Plumbing.tla: transcribed plumbing violates {names} (spec or design error): {res.violations[0].trace[-1][1]}")
        em = run_tlc(ref, True)
        seen, cases = set(), []
        for c in em.emitted("CASE"):
            k = json.dumps(c, sort_keys=True)
            if k not in seen:
                seen.add(k)
                cases.append(c)
        if len(cases) < 20:
            raise Machinery(f"too few write-ups emitted ({len(cases)})")
        base = {}
        for k, case in enumerate(cases):
            ctx.distinct((ref["name"], json.dumps(case["taxa"]), json.dumps(case["seqs"]), json.dumps(case["tree"]), json.dumps(case["cols"])),
                         case["taxa"] != ref["names"] or case["rootMoved"])
            for model, tipmode in (("HKY", "plain"), ("GTR", "ambiguities"), ("HKY", "states")):
                if model == "NONREV" and case["rootMoved"]:
                    continue
                v = evaluate(ctx, ref, case, model, tipmode, check_predictions=(model == "HKY"))
                if v is None:
                    continue
                key = (model, tipmode)
                if key not in base:
                    base[key] = (v, case)
                elif not abs(v - base[key][0]) <= 1e-10 * max(1.0, abs(v)):
                    what = "root moved" if case["rootMoved"] != base[key][1]["rootMoved"] else "same root"
                    ctx.violation(f"C02:{ref['name']}:value:{model}:{tipmode}",
                                  f"{model}/{tipmode}: log-likelihood {v!r} of write-up taxa={case['taxa']} seqs={case['seqs']} tree={case['tree']} "
                                  f"cols={case['cols']} differs from {base[key][0]!r} of an equivalent write-up ({what})", {"case": case, "other": base[key][1]})
            ctx.add("traces_validated_against_impl")
        # tip states = tip partials when ambiguous symbols are missing data
        if ("HKY", "plain") in base and ("HKY", "states") in base and abs(base[("HKY", "plain")][0] - base[("HKY", "states")][0]) > 1e-10:
            ctx.violation(f"C02:{ref['name']}:tip-representation", f"tip states give {base[('HKY', 'states')][0]!r}, tip partials (ambiguities as missing) "
                          f"{base[('HKY', 'plain')][0]!r}", {"case": base[("HKY", "plain")][1]})
        ctx.sample({"reference": ref["name"], "writeup": {k: cases[len(cases) // 2][k] for k in ("taxa", "seqs", "tree", "cols", "rootMoved")}}, limit=3)
    alphabet_sweep(ctx)
    ctx.cov["exhaustive"] = False
    ctx.cov["rule"] = ("write-ups reachable from each reference by <= depth rewrites, sub-sampled for replay (TLC checks all of them); non-trivial = "
                       "taxa order differs from the reference or the root was moved")
    ctx.assumptions += ["only reversible models (HKY, GTR) are used: on an UnRootedTreeModel the root sits on one of the root's children (zero branch), so for a "
                        "non-reversible model even swapping the root's children moves the root; non-reversible models are checked on rooted trees in C01"]
