"""Shared plumbing for the per-property checks: context, evidence, findings,
violation reporting, import of torchtree from the tree under test."""
from __future__ import annotations

import hashlib
import json
import os
import shutil
import sys
import time
import traceback

VERIF = os.path.dirname(os.path.dirname(os.path.abspath(__file__)))
SRC = os.environ.get("TORCHTREE_SRC", "/repo")
GUARD = "TORCHTREE_VERIF"


def use_src():
    """Make `import torchtree` resolve to the tree under test (default /repo)."""
    os.environ[GUARD] = "1"
    if SRC in sys.path:
        sys.path.remove(SRC)
    sys.path.insert(0, SRC)
    import torchtree  # noqa
    got = os.path.dirname(os.path.dirname(os.path.abspath(torchtree.__file__)))
    if os.path.realpath(got) != os.path.realpath(SRC):
        raise Machinery(f"torchtree imported from {got}, expected {SRC}")
    import torch
    torch.set_default_dtype(torch.float64)
    # register every class the way torchtree.main does
    import importlib
    from torchtree.core.utils import package_contents
    for module in package_contents("torchtree"):
        try:
            importlib.import_module(module)
        except Exception:  # optional plug-ins
            pass
    return torchtree


class Machinery(Exception):
    """The check itself is broken (exit 2); never a verdict."""


class Ctx:
    def __init__(self, pid: str, tier: str, seed: int, level: str):
        self.pid = pid
        self.tier = tier
        self.seed = seed
        self.level = level
        self.t0 = time.time()
        self.cov: dict = {"samples": []}
        self.assumptions: list[str] = []
        self.violations: list[dict] = []
        self.known_seen: dict[str, str] = {}
        self.notes: list[str] = []
        kf = os.path.join(VERIF, "known_findings.json")
        self.known = {}
        self.fixed = {}
        if os.path.exists(kf):
            for e in json.load(open(kf)).get("findings", []):
                if e["property"] != pid:
                    continue
                if e.get("status") == "open":
                    self.known[e["key"]] = e
                else:
                    self.fixed[e["key"]] = e
        self._nrep = 0
        rd = os.path.join(VERIF, "replay", pid)
        if os.path.isdir(rd):
            shutil.rmtree(rd, ignore_errors=True)

    # --- coverage accounting ----------------------------------------------------
    def add(self, key: str, n: int = 1):
        self.cov[key] = self.cov.get(key, 0) + n

    def setmax(self, key: str, n: int):
        self.cov[key] = max(self.cov.get(key, 0), n)

    def sample(self, s, limit: int = 6):
        if len(self.cov["samples"]) < limit:
            self.cov["samples"].append(s)

    def distinct(self, key, nontrivial: bool = True):
        """Count distinct non-trivial cases by hashable key."""
        st = self.__dict__.setdefault("_distinct", set())
        if nontrivial:
            h = hashlib.sha1(repr(key).encode()).digest()[:10]
            st.add(h)

    def tlc(self, res, label: str = ""):
        self.add("states", res.distinct)
        self.add("transitions", res.generated)
        self.cov.setdefault("tlc_runs", []).append(
            {"label": label, "distinct": res.distinct, "generated": res.generated,
             "depth": res.depth, "wall_s": round(res.wall_s, 1),
             "coverage": {k: list(v) for k, v in sorted(res.coverage.items())}})

    # --- verdicts ---------------------------------------------------------------
    def note(self, msg: str):
        """A non-verdict remark (e.g. MODEL-DRIFT): printed once and stored in the evidence."""
        if msg not in self.notes and len(self.notes) < 40:
            self.notes.append(msg)
            print(msg)

    def violation(self, key: str, what: str, replay: dict | None = None):
        """Report a confirmed violation observed on the real code.  `key` names the
        call site / input class; known findings are matched on it exactly."""
        if key in self.known:
            if key not in self.known_seen:
                self.known_seen[key] = what
            return
        if any(v["key"] == key for v in self.violations):
            self.add("violation_repeats")
            return
        self._nrep += 1
        rd = os.path.join(VERIF, "replay", self.pid)
        os.makedirs(rd, exist_ok=True)
        path = os.path.join(rd, f"{self._nrep}.json")
        with open(path, "w") as f:
            json.dump({"property": self.pid, "key": key, "what": what, "replay": replay,
                       "seed": self.seed, "tier": self.tier}, f, indent=1, default=str)
        self.violations.append({"key": key, "what": what, "replay": path})
        print(f"VIOLATION property={self.pid} replay={path}", flush=True)
        print(f"  key={key}: {what}", flush=True)

    def finish(self) -> int:
        for key, what in sorted(self.known_seen.items()):
            print(f"KNOWN-FINDING: property={self.pid} {key}: {self.known[key]['what']}")
        for key in sorted(self.known):
            if key not in self.known_seen:
                self.notes.append(f"listed known finding not observed in this run: {key}")
                print(f"note: listed known finding {key} was not observed in this run")
        cov = dict(self.cov)
        d = self.__dict__.get("_distinct")
        if d is not None:
            cov["distinct_nontrivial"] = len(d)
        cov.setdefault("evaluations", 0)
        cov.setdefault("distinct_nontrivial", 0)
        cov["known_findings_seen"] = sorted(self.known_seen)
        if self.notes:
            cov["notes"] = self.notes
        ev = {"property_id": self.pid, "tier": self.tier, "seed": self.seed, "level": self.level,
              "coverage": cov, "assumptions": self.assumptions,
              "wall_s": round(time.time() - self.t0, 2), "violations": len(self.violations)}
        os.makedirs(os.path.join(VERIF, "evidence"), exist_ok=True)
        with open(os.path.join(VERIF, "evidence", f"{self.pid}.json"), "w") as f:
            json.dump(ev, f, indent=1, default=str)
        status = 1 if self.violations else 0
        print(f"{self.pid} {self.tier}: {'VIOLATED' if status else 'held'}; "
              f"evaluations={cov.get('evaluations')} distinct={cov.get('distinct_nontrivial')} "
              f"states={cov.get('states', 0)} known={len(self.known_seen)} wall={ev['wall_s']}s")
        return status


def main(pid: str, level: str, runner, argv=None):
    import argparse
    ap = argparse.ArgumentParser()
    ap.add_argument("--tier", default=os.environ.get("VERIF_TIER", "quick"), choices=["quick", "thorough"])
    ap.add_argument("--replay", default=None)
    a = ap.parse_args(argv)
    seed = int(os.environ.get("VERIF_SEED", "0") or 0)
    tier = a.tier
    if a.replay:
        # a replay file records the seed and tier of the run that wrote it: the same exploration is repeated
        # (checks are deterministic given both) and reports the same violation while it persists
        try:
            with open(a.replay) as f:
                rp = json.load(f)
            seed, tier = int(rp.get("seed", seed)), rp.get("tier", tier)
            print(f"replaying {a.replay}: key {rp.get('key')} (seed {seed}, tier {tier})", flush=True)
        except (OSError, ValueError) as e:
            print(f"MACHINERY-FAILURE property={pid}: cannot read replay file: {e}", flush=True)
            return 2
    ctx = Ctx(pid, tier, seed, level)
    ctx.replay_path = a.replay
    try:
        runner(ctx)
        return ctx.finish()
    except Exception as e:  # machinery failure
        traceback.print_exc()
        print(f"MACHINERY-FAILURE property={pid}: {type(e).__name__}: {e}", flush=True)
        return 2
    finally:
        from . import tlc as _t
        # remove only this process's work dirs
        if os.path.isdir(_t.WORK):
            for n in os.listdir(_t.WORK):
                if f"-{os.getpid()}-" in n:
                    shutil.rmtree(os.path.join(_t.WORK, n), ignore_errors=True)
