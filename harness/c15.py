"""C15 - every MCMC transition is a Metropolis-Hastings step on the stated target.

1. TLC, exhaustive: Mcmc.tla (the loop of MCMC.run, one action per phase) for every target
   function over 3 states x 3 densities (incl. non-finite), 2 operators, 3 iterations:
   carried density = target at the current state, proposals evaluated on the target, rejection
   restores the saved state, logged rows consistent, tuning direction (with the measured sign of
   each operator's boldness w.r.t. its adapted quantity).
2. code -> spec: real chains (every operator type, mixtures, adaptation on/off, toy and
   CLI-built phylogenetic targets) are run through the real MCMC.run with the TORCHTREE_VERIF hook
   and instance wrappers; per iteration the record holds abstract ids for parameter states and
   densities plus measurements (target recomputed on a freshly built copy, true log Hastings
   ratio recomputed independently, acceptance rule recomputed from the logged numbers, boldness
   before/after tuning); TraceMcmc.tla steps every record through the phase actions of Mcmc and
   names the first failing clause (total validation).
"""
from __future__ import annotations

import copy
import hashlib
import json
import math
import os
import shutil
import tempfile

from . import tlc, zoo
from .common import Ctx, Machinery, use_src

LEVEL = "model_checking"


# ------------------------------------------------------------------ chains
def P(id_, tensor, **kw):
    d = {"id": id_, "type": "Parameter", "tensor": tensor}
    d.update(kw)
    return d


def D(id_, dist, x, params):
    return {"id": id_, "type": "Distribution", "distribution": "torch.distributions." + dist, "x": x, "parameters": params}


def toy_joint():
    return [
        D("dx", "Normal", P("x", [0.3, -0.2]), {"loc": P("dx.loc", [0.5]), "scale": P("dx.scale", [2.0])}),
        D("ds", "LogNormal", P("s", [1.5, 0.7]), {"loc": P("ds.loc", [0.0]), "scale": P("ds.scale", [1.0])}),
        D("df", "Dirichlet", P("f", [0.2, 0.3, 0.5]), {"concentration": P("df.conc", [2.0, 3.0, 4.0])}),
        {"id": "joint", "type": "JointDistributionModel", "distributions": ["dx", "ds", "df"]},
    ]


def op(type_, id_, params, **kw):
    d = {"id": id_, "type": type_, "parameters": params}
    d.update(kw)
    return d


def mcmc(joint, operators, iterations, logged):
    return {"id": "mcmc", "type": "MCMC", "joint": joint, "iterations": iterations, "operators": operators,
            "checkpoint": False, "every": 0,
            "loggers": [{"id": "logger", "type": "Logger", "parameters": logged, "every": 1, "file_name": "@LOG@"}]}


def hmc_doc(dense, adaptors, steps=4, step_size=0.15):
    joint = [
        D("dx", "Normal", P("x", [0.3, -0.2, 0.8]), {"loc": P("dx.loc", [0.5]), "scale": P("dx.scale", [1.5])}),
        D("dy", "Gamma", {"id": "y", "type": "TransformedParameter", "transform": "torch.distributions.ExpTransform",
                          "x": P("y.unres", [0.1, -0.3])},
          {"concentration": P("dy.shape", [2.0]), "rate": P("dy.rate", [1.5])}),
        {"id": "joint", "type": "JointDistributionModel", "distributions": ["dx", "dy"]},
        {"id": "joint.jacobian", "type": "JointDistributionModel", "distributions": ["joint", "y"]},
    ]
    mass = P("mass", [[2.0, 0.3, 0, 0, 0], [0.3, 1.0, 0, 0, 0], [0, 0, 1.5, 0.2, 0], [0, 0, 0.2, 0.8, 0], [0, 0, 0, 0, 1.2]]) if dense \
        else P("mass", [2.0, 1.0, 0.5, 1.5, 0.8])
    hop = {"id": "hmc.op", "type": "HMCOperator", "joint": "joint.jacobian", "parameters": ["x", "y.unres"],
           "integrator": {"id": "leapfrog", "type": "LeapfrogIntegrator", "steps": steps, "step_size": step_size},
           "mass_matrix": mass, "adaptors": []}
    for a in adaptors:
        if a == "stepsize":
            hop["adaptors"].append({"id": "ad.step", "type": "AdaptiveStepSize", "integrator": "leapfrog"})
        elif a == "stepsize-rate":
            hop["adaptors"].append({"id": "ad.step", "type": "AdaptiveStepSize", "integrator": "leapfrog", "use_acceptance_rate": True})
        elif a == "stepsize-rate-late":
            hop["adaptors"].append({"id": "ad.step", "type": "AdaptiveStepSize", "integrator": "leapfrog", "use_acceptance_rate": True, "start": 25})
        elif a == "dual-closed":      # the adaptation window closes early: afterwards the run uses the averaged step size
            hop["adaptors"].append({"id": "ad.dual", "type": "DualAveragingStepSize", "integrator": "leapfrog", "end": 5})
        elif a == "dual":
            hop["adaptors"].append({"id": "ad.dual", "type": "DualAveragingStepSize", "integrator": "leapfrog"})
        elif a == "mass":
            hop["adaptors"].append({"id": "ad.mass", "type": "MassMatrixAdaptor", "parameters": ["x", "y.unres"],
                                    "mass_matrix": "mass", "update_frequency": 5})
    ops = [hop]
    ops.append(op("SlidingWindowOperator", "x.slide", "x", width=0.8, weight=0.5))
    return joint + [mcmc("joint.jacobian", ops, 10, ["joint.jacobian", "x", "y.unres"])]


def chains(tier):
    out = []
    toy_ops = [op("SlidingWindowOperator", "x.slide", "x", width=1.0),
               op("ScalerOperator", "s.scale", "s", scaler=0.5),
               op("DirichletOperator", "f.dir", "f", scaler=40.0)]
    out.append(("toy-mixture-adapt", toy_joint() + [mcmc("joint", copy.deepcopy(toy_ops), 10, ["joint", "x", "s", "f"])], 120))
    noad = copy.deepcopy(toy_ops)
    for o in noad:
        o["disable_adaptation"] = True
    out.append(("toy-mixture-fixed", toy_joint() + [mcmc("joint", noad, 10, ["joint", "x", "s", "f"])], 60))
    wild = [op("SlidingWindowOperator", "x.slide", "x", width=40.0), op("ScalerOperator", "s.scale", "s", scaler=0.01),
            op("DirichletOperator", "f.dir", "f", scaler=1.5)]
    out.append(("toy-wild-proposals", toy_joint() + [mcmc("joint", wild, 10, ["joint", "x", "s", "f"])], 80))
    oos = [
        D("dx", "Normal", P("x", [0.1]), {"loc": P("dx.loc", [0.0]), "scale": P("dx.scale", [1.0])}),
        D("dy", "Uniform", P("y", [0.5]), {"low": P("dy.low", [0.0]), "high": P("dy.high", [1.0])}),
        D("dz", "LogNormal", P("z", [1.0]), {"loc": P("dz.loc", [0.0]), "scale": P("dz.scale", [1.0])}),
        {"id": "joint", "type": "JointDistributionModel", "distributions": ["dx", "dy", "dz"]},
        mcmc("joint", [op("SlidingWindowOperator", "x.slide", "x", width=0.05),
                       op("SlidingWindowOperator", "y.slide", "y", width=6.0),
                       op("SlidingWindowOperator", "z.slide", "z", width=8.0)], 10, ["joint", "x", "y", "z"])]
    out.append(("toy-out-of-support", oos, 90))
    out.append(("hmc-diag", hmc_doc(False, []), 40))
    out.append(("hmc-dense-stepsize-mass", hmc_doc(True, ["stepsize", "mass"]), 40))
    out.append(("hmc-diag-dual-mass", hmc_doc(False, ["dual", "mass"]), 40))
    out.append(("hmc-diag-rate-late-start", hmc_doc(False, ["stepsize-rate-late"]), 70))
    ev = zoo.evo_args("t4.fa", "t4.nwk")
    out.append(("cli-mcmc-skygrid", ("cli", ["mcmc"] + ev + ["-m", "HKY", "--clock", "strict", "--coalescent", "skygrid", "--grid", "3",
                                                              "--cutoff", "5", "--stem", "x"]), 40))
    # the block operator starting from scaler = 1 (it tunes itself above 1 and then also proposes the precision)
    out.append(("cli-mcmc-skygrid-scaler1", ("cli", ["mcmc"] + ev + ["-m", "JC69", "--clock", "strict", "--coalescent", "skygrid", "--grid", "3",
                                                                      "--cutoff", "5", "--stem", "x"],
                                             {"GMRFPiecewiseCoalescentBlockUpdatingOperator": {"scaler": 1.0, "weight": 25.0}}), 160))
    if tier == "thorough":
        out.append(("hmc-diag-rate", hmc_doc(False, ["stepsize-rate"]), 80))
        out.append(("cli-hmc-constant", ("cli", ["hmc"] + ev + ["-m", "JC69", "--clock", "strict", "--coalescent", "constant", "--stem", "x"]), 30))
        out.append(("cli-mcmc-gtr", ("cli", ["mcmc"] + ev + ["-m", "GTR", "-C", "4", "--clock", "strict", "--coalescent", "constant", "--stem", "x"]), 80))
    return out


# ------------------------------------------------------------------ recording
class IntegratorProxy:
    def __init__(self, real, rec):
        object.__setattr__(self, "_real", real)
        object.__setattr__(self, "_rec", rec)

    def __call__(self, model, parameters, momentum, inverse_mass_matrix):
        self._rec["p0"] = momentum.detach().clone()
        out = self._real(model, parameters, momentum, inverse_mass_matrix)
        self._rec["p1"] = out.detach().clone()
        return out

    def __getattr__(self, k):
        return getattr(self._real, k)

    def __setattr__(self, k, v):
        setattr(self._real, k, v)


def boldness(o):
    n = type(o).__name__
    if n == "ScalerOperator":
        return 1.0 / o._scaler - o._scaler
    if n == "SlidingWindowOperator":
        return o._width
    if n == "DirichletOperator":
        return 1.0 / o._scaler
    if n == "GMRFPiecewiseCoalescentBlockUpdatingOperator":
        return o._scaler
    if n == "HMCOperator":
        return o._integrator.step_size
    raise Machinery(f"no boldness measure for operator {n}")


def judged_stepwise(o):
    if o._disable_adaptation:
        return False
    if type(o).__name__ == "HMCOperator" and o._adaptors:
        return all(type(a).__name__ in ("AdaptiveStepSize", "MassMatrixAdaptor") for a in o._adaptors)
    return True


def rate_mode(o):
    """(start, end) of an AdaptiveStepSize adaptor driven by the running acceptance RATE, else None."""
    if type(o).__name__ == "HMCOperator":
        for a in o._adaptors:
            if type(a).__name__ == "AdaptiveStepSize" and getattr(a, "_acceptance_rate", False):
                return (a._start, a._end)
    return None


def prepare(doc_or_cli, iterations, workdir):
    if isinstance(doc_or_cli, tuple):
        doc = zoo.cli_json(doc_or_cli[1])
        if len(doc_or_cli) > 2:          # overrides per operator type: {type: {key: value}}
            for e in doc:
                if isinstance(e, dict) and e.get("type") == "MCMC":
                    for o in e["operators"]:
                        o.update(doc_or_cli[2].get(o.get("type"), {}))
    else:
        doc = copy.deepcopy(doc_or_cli)
    m = next(e for e in doc if isinstance(e, dict) and e.get("type") == "MCMC")
    m["iterations"] = iterations
    m["every"] = 0
    m["checkpoint"] = False
    logp = os.path.join(workdir, "log.csv")
    from torchtree.core.parameter import Parameter  # noqa
    # a logger of the carried joint and of every raw parameter the operators move
    return doc, m, logp


def tweak(dic):
    """Out-of-support values give -inf / NaN instead of raising (torch's argument validation off)."""
    from torchtree.distributions.distributions import Distribution
    for o in dic.values():
        if isinstance(o, Distribution) and o.dist.__name__ in ("Uniform", "LogNormal"):
            o.kwargs = {"validate_args": False}


def run_chain(name, doc_or_cli, iterations, seed, workdir):
    """Run the real MCMC.run; returns the per-iteration raw records and context for measurements."""
    import torch
    import torchtree.inference.mcmc.mcmc as M
    from torchtree.core.parameter import Parameter
    doc, mjson, logp = prepare(doc_or_cli, iterations, workdir)
    # loggers: joint + raw parameters
    dic0 = zoo.load(doc, upto=mjson["id"])
    raw_ids = sorted(k for k, o in dic0.items() if type(o) is Parameter and o.tensor.dtype.is_floating_point)
    joint_id = mjson["joint"] if isinstance(mjson["joint"], str) else mjson["joint"]["id"]
    mjson["loggers"] = [{"id": "verif.logger", "type": "Logger", "parameters": [joint_id] + raw_ids, "every": 3,
                         "file_name": logp}]
    dic = zoo.load(doc)
    tweak(dic)
    mc = dic[mjson["id"]]
    raws = {k: dic[k] for k in raw_ids}
    moved = set()
    for o in mc._operators:
        for p in o.parameters:
            for q in p.parameters():
                if q.id in raws:
                    moved.add(q.id)

    def snap():
        vals = {k: raws[k].tensor.detach().clone() for k in raw_ids}
        h = hashlib.sha1(b"".join(v.numpy().tobytes() for v in vals.values())).hexdigest()
        return h, vals

    states = {}
    recs = []
    cur = {}
    rands = []
    real_rand = torch.rand

    def my_rand(*a, **kw):
        r = real_rand(*a, **kw)
        rands.append(r.detach().clone())
        return r

    for oi, o in enumerate(mc._operators):
        hrec = {}
        if type(o).__name__ == "HMCOperator":
            object.__setattr__(o, "_integrator", IntegratorProxy(o._integrator, hrec))

        def mk(o=o, oi=oi, hrec=hrec):
            ostep, oacc, orej = o.step, o.accept, o.reject

            def step():
                h, v = snap()
                states.setdefault(h, v)
                cur.clear()
                cur.update(op=oi, sBefore=h, attrs=op_attrs(o), bold_before=boldness(o))
                hrec.clear()
                r = ostep()
                h2, v2 = snap()
                states.setdefault(h2, v2)
                cur.update(sProp=h2, hast_returned=float(r), nrand=len(rands), hmc=dict(hrec))
                return r

            def accept():
                oacc()
                h3, v3 = snap()
                states.setdefault(h3, v3)
                cur.update(sAfter=h3, u=[float(x) for x in rands[cur["nrand"]:]])

            def reject():
                orej()
                h3, v3 = snap()
                states.setdefault(h3, v3)
                cur.update(sAfter=h3, u=[float(x) for x in rands[cur["nrand"]:]])
            o.step, o.accept, o.reject = step, accept, reject
        mk()
    M._VERIF_TRACE.clear()
    torch.manual_seed(seed)
    torch.rand = my_rand
    err = None
    try:
        # interleave: collect the wrapper's record at each 'tuned' hook event by post-processing
        trace_len = [0]
        orig_tunes = []
        for o in mc._operators:
            otune = o.tune

            def tune(acceptance_prob, sample, accepted, o=o, otune=otune):
                otune(acceptance_prob, sample=sample, accepted=accepted)
                rec = dict(cur)
                rec.update(bold_after=boldness(o), target_acc=o.target_acceptance_probability,
                           judge=judged_stepwise(o), optype=type(o).__name__, opid=o.id, rate_mode=rate_mode(o))
                recs.append(rec)
            o.tune = tune
        import contextlib
        import io
        with contextlib.redirect_stdout(io.StringIO()):
            mc.run()
    except Exception as e:  # the chain raised
        err = f"{type(e).__name__}: {e}"
    finally:
        torch.rand = real_rand
    hook = list(M._VERIF_TRACE)
    M._VERIF_TRACE.clear()
    rows = []
    if os.path.exists(logp):
        import csv
        with open(logp) as f:
            rd = list(csv.reader(f))
        header = rd[0]
        for r in rd[1:]:
            rows.append(dict(zip(header, r)))
    return dict(name=name, doc=doc, mjson=mjson, raw_ids=raw_ids, joint_id=joint_id, recs=recs, hook=hook, states=states,
                rows=rows, err=err, mc=mc)


def op_attrs(o):
    n = type(o).__name__
    d = {"type": n}
    if hasattr(o, "_scaler"):
        d["scaler"] = o._scaler
    if hasattr(o, "_width"):
        d["width"] = o._width
    if n == "HMCOperator":
        d["mass"] = o.mass_matrix.detach().clone()
    return d


# ------------------------------------------------------------------ measurements
def fresh_targets(run):
    """Target evaluated on a freshly built copy for every distinct state."""
    import torch
    out = {}
    for h, vals in run["states"].items():
        doc = copy.deepcopy(run["doc"])
        for k, t in vals.items():
            js = zoo.find(doc, k)
            for kk in list(js):
                if kk not in ("id", "type", "dtype", "nn"):
                    del js[kk]
            js["tensor"] = t.tolist()
            js["dtype"] = str(t.dtype)
        dic = zoo.load(doc, upto=run["mjson"]["id"])
        tweak(dic)
        with torch.no_grad():
            try:
                v = dic[run["joint_id"]]()
                out[h] = float(v.sum()) if v.numel() > 1 else float(v)
            except Exception:
                out[h] = float("nan")
    return out


def true_hastings(rec, states):
    """Independent log Hastings ratio from the recorded before/after values; None if not judged."""
    import torch
    a = rec["attrs"]
    before, after = states[rec["sBefore"]], states[rec["sProp"]]
    changed = [k for k in before if before[k].shape != after[k].shape or not torch.equal(before[k], after[k])]
    t = a["type"]
    if t == "SlidingWindowOperator":
        return 0.0
    if t == "ScalerOperator":
        if not changed:
            return 0.0
        k = changed[0]
        idx = (before[k] != after[k]).nonzero().reshape(-1)
        if len(changed) > 1 or len(idx) != 1:
            return float("nan")         # the proposal moved more than one component
        s = float(after[k][idx[0]] / before[k][idx[0]])
        return -math.log(s)
    if t == "DirichletOperator":
        if not changed:
            return 0.0
        k = changed[0]
        old, new, sc = before[k].tolist(), after[k].tolist(), a["scaler"]

        def dirlp(alpha, x):
            return math.lgamma(sum(alpha)) - sum(math.lgamma(z) for z in alpha) + sum((z - 1) * math.log(v) for z, v in zip(alpha, x))
        return dirlp([v * sc for v in new], old) - dirlp([v * sc for v in old], new)
    if t == "HMCOperator":
        h = rec.get("hmc") or {}
        if "p0" not in h or "p1" not in h:
            return None
        m = a["mass"].double()

        def kin(p):
            p = p.double()
            if m.dim() == 1:
                return float(0.5 * (p * p / m).sum())
            return float(0.5 * p @ torch.linalg.solve(m, p))
        return kin(h["p0"]) - kin(h["p1"])
    return None


def cluster(values, rel=1e-9):
    """Map floats to ids: values within rel of each other share an id; non-finite -> 0."""
    fin = sorted({v for v in values if v is not None and math.isfinite(v)})
    ids, cur, last = {}, 0, None
    for v in fin:
        if last is None or abs(v - last) > rel * max(1.0, abs(v)):
            cur += 1
        ids[v] = cur
        last = v
    return lambda v: 0 if (v is None or not math.isfinite(v)) else ids[v]


def build_records(run):
    """Per-iteration records for TraceMcmc (abstract ids + measurements)."""
    hook = run["hook"]
    dec = [e for e in hook if e["event"] == "decide"]
    tun = [e for e in hook if e["event"] == "tuned"]
    n = min(len(dec), len(tun), len(run["recs"]))
    tgt = fresh_targets(run)
    floats = list(tgt.values())
    for e in dec[:n]:
        floats += [e["log_joint"], e["log_joint_proposed"]]
    floats += [e["log_joint"] for e in tun[:n]]
    rows = {int(float(r["sample"])): r for r in run["rows"]}
    for r in rows.values():
        floats.append(float(r[run["joint_id"]]))
    lpid = cluster(floats)
    sid = {h: i + 1 for i, h in enumerate(run["states"])}
    target = [lpid(tgt[h]) for h in run["states"]]
    bolds = sorted({x for r in run["recs"][:n] for x in (r["bold_before"], r["bold_after"])})
    brank = {b: i for i, b in enumerate(bolds)}
    recs = []
    detail = []
    tallies = {}
    for k in range(n):
        d, t, w = dec[k], tun[k], run["recs"][k]
        hast = d["hastings"]
        th = true_hastings(w, run["states"])
        if th is None or math.isinf(hast):
            hast_ok = True
        else:
            hast_ok = (not math.isnan(th)) and abs(hast - th) <= 1e-8 * max(1.0, abs(th))
        u = w["u"][-1] if w["u"] else None
        lpP, lpC = d["log_joint_proposed"], d["log_joint"]
        if math.isinf(hast) or lpP is None or not math.isfinite(lpP) or u is None:
            should = False
        else:
            la = (lpP - lpC) + hast
            should = math.exp(min(0.0, la)) > u
        # the acceptance probability of the move that was made, from the fresh targets and the true ratio
        tb, tp = tgt[w["sBefore"]], tgt[w["sProp"]]
        hh = th if (th is not None and not math.isnan(th)) else hast
        if math.isinf(hast) or not math.isfinite(tp) or not math.isfinite(tb):
            acc = 0.0
        else:
            acc = math.exp(min(0.0, (tp - tb) + hh))
        acc_ok = abs(acc - d["acceptance_prob"]) <= 1e-8
        rel = "above" if acc > w["target_acc"] + 1e-12 else ("below" if acc < w["target_acc"] - 1e-12 else "equal")
        if w.get("rate_mode"):
            # tuned on the running acceptance rate: an independent tally of this operator's decisions (documented window:
            # start <= calls <= end, and at least 10 calls); outside the window the step size must not be judged
            tally = tallies.setdefault(w["opid"], [0, 0])
            tally[0] += 1
            tally[1] += 1 if d["accepted"] else 0
            st, en = w["rate_mode"]
            if st <= tally[0] <= en and tally[0] >= 10:
                r_ = tally[1] / tally[0]
                rel = "above" if r_ > w["target_acc"] + 1e-12 else ("below" if r_ < w["target_acc"] - 1e-12 else "equal")
            else:
                rel = "equal"
        row = rows.get(d["iteration"])
        logged = row is not None
        if logged:
            import torch
            vals = {}
            for rid in run["raw_ids"]:
                shape = run["states"][w["sAfter"]][rid].shape
                cols = [c for c in row if c.startswith(rid + ".") and c[len(rid) + 1:].isdigit()]
                vals[rid] = [float(row[c]) for c in sorted(cols, key=lambda c: int(c.rsplit(".", 1)[1]))]
            hh = None
            for h, sv in run["states"].items():
                if all(sv[rid].reshape(-1)[-len(vals[rid]):].tolist() == vals[rid] for rid in run["raw_ids"] if vals[rid]):
                    hh = h
                    break
            log_state = sid[hh] if hh else 0
            log_lp = lpid(float(row[run["joint_id"]]))
        else:
            log_state, log_lp = 0, 0
        recs.append({
            "op": d["operator"] + 1, "sBefore": sid[w["sBefore"]], "lpCarried": lpid(lpC),
            "sProp": sid[w["sProp"]], "hastKind": "inf" if math.isinf(hast) else "finite", "hastOK": bool(hast_ok),
            "lpProp": lpid(lpP), "shouldAccept": bool(should), "accepted": bool(d["accepted"]), "accRel": rel,
            "sAfter": sid[w["sAfter"]], "lpAfter": lpid(t["log_joint"]),
            "logged": bool(logged and log_state != 0), "logState": log_state, "logLp": log_lp,
            "accProbOK": bool(acc_ok),
            "judgeTune": bool(w["judge"]), "boldBefore": brank[w["bold_before"]], "boldAfter": brank[w["bold_after"]],
        })
        detail.append({"iteration": d["iteration"], "operator": w["opid"], "optype": w["optype"], "hastings": hast, "true_hastings": th,
                       "log_joint": lpC, "log_joint_proposed": lpP, "target_before": tgt[w["sBefore"]], "target_proposed": tgt[w["sProp"]],
                       "u": u, "accepted": d["accepted"], "acceptance_prob": d["acceptance_prob"], "true_acceptance_prob": acc,
                       "target_acc": w["target_acc"],
                       "bold_before": w["bold_before"], "bold_after": w["bold_after"]})
    return recs, target, detail, len(sid), max(target + [1])


# ------------------------------------------------------------------ TLC
def exhaustive(ctx, signs):
    """Mcmc.tla for every target function over 3 states (26 functions, one TLC run each, in parallel);
    the tuning clause is checked with the measured signs."""
    import itertools
    from concurrent.futures import ThreadPoolExecutor
    nops = max(2, len(signs))
    sg = "(" + " @@ ".join(f"{i + 1} :> {s}" for i, s in enumerate(signs + [1] * (nops - len(signs)))) + ")"
    root = tlc.workdir("c15")

    def one(tgt):
        d = os.path.join(root, "t%d%d%d" % tgt)
        os.makedirs(d)
        t, c = tlc.write_mc(d, "MC_Mcmc", "Mcmc",
                            {"States": "1..3", "Lps": "1..2", "Target": "<<%d, %d, %d>>" % tgt, "Ops": f"1..{nops}",
                             "Sign": sg, "MaxIter": "2"},
                            ["SPECIFICATION Spec", "INVARIANT CarriedInvariant", "INVARIANT ProposedInvariant",
                             "INVARIANT RestoreInvariant", "INVARIANT LogInvariant", "INVARIANT NeverAcceptNonFinite",
                             "PROPERTY TuneProperty", "PROPERTY TuneBoldness"])
        return tlc.run(t, c, workers=2, coverage=True, tag="c15", timeout=600, heap="1g")

    tgts = [t for t in itertools.product([0, 1, 2], repeat=3) if any(t)]
    with ThreadPoolExecutor(8) as ex:
        results = list(ex.map(one, tgts))
    shutil.rmtree(root, ignore_errors=True)
    total_states = sum(r.distinct for r in results)
    total_gen = sum(r.generated for r in results)
    viol = {v.name for r in results for v in r.violations}
    cov = {}
    for r in results:
        for k, v in r.coverage.items():
            a, b = cov.get(k, (0, 0))
            cov[k] = (a + v[0], b + v[1])
    return total_states, total_gen, viol, cov


def validate(ctx, traces, target, nstates, nlps, nops):
    d = tlc.workdir("c15t")
    tf = os.path.join(d, "traces.json")
    with open(tf, "w") as f:
        json.dump(traces, f)
    t, c = tlc.write_mc(d, "MC_TraceMcmc", "TraceMcmc",
                        {"States": f"0..{nstates}", "Lps": f"1..{nlps}", "Target": tlc.tla([0] + target) if False else
                         "(0 :> 0 @@ " + " @@ ".join(f"{i + 1} :> {v}" for i, v in enumerate(target)) + ")",
                         "Ops": f"1..{nops}", "Sign": "[o \\in 1.." + str(nops) + " |-> 1]", "MaxIter": "1000000"},
                        ["SPECIFICATION TSpec"])
    res = tlc.run(t, c, workers=1, tag="c15t", timeout=1200, env={"TRACE_FILE": tf})
    shutil.rmtree(d, ignore_errors=True)
    verdicts = {}
    for p in res.prints:
        if isinstance(p, tuple) and len(p) == 4 and p[0] == "VERDICT":
            verdicts[p[1]] = (p[2], p[3])
    return res, verdicts


CLAUSE_TEXT = {
    "C_CarriedIsTarget": "the density carried for the current state differs from the target evaluated from scratch",
    "C_ProposedIsTarget": "the density used for the proposed state differs from the target evaluated from scratch",
    "C_HastingsRatio": "the reported log Hastings ratio differs from the true log ratio of reverse to forward proposal densities",
    "C_Decision": "the accept/reject decision differs from u < min(1, exp(delta + hastings))",
    "C_NonFiniteNeverAccepted": "a proposal with a non-finite density was accepted",
    "C_RejectRestores": "after a rejection the parameters are not bit-identical to their values before the proposal",
    "C_LogConsistent": "a logged row shows a density that is not the target at the logged parameter values",
    "C_Tune": "tuning moved the proposal scale against the direction of (acceptance - target)",
}


def run(ctx: Ctx):
    use_src()
    import logging
    import torch
    logging.disable(logging.CRITICAL)
    work = tempfile.mkdtemp(prefix="c15-", dir=tlc.workdir("c15w"))
    ctx.assumptions += [
        "dual-averaging step-size adaptation is not judged step by step (DESIGN C15); the running-rate variant is judged against an independent tally of the decisions; mass-matrix adaptation is not a proposal-scale direction",
        "the GMRF block-update Hastings ratio is not recomputed independently (its precision proposal is symmetric; the Gaussian part is left to C20's quantities)",
        "density ids: floats within relative 1e-9 are identified",
    ]
    runs = []
    for name, doc, iters in chains(ctx.tier):
        wd = os.path.join(work, name)
        os.makedirs(wd)
        for seed in ([ctx.seed + 1] if ctx.tier == "quick" else [ctx.seed + 1, ctx.seed + 2]):
            r = run_chain(name, doc, iters if ctx.tier == "quick" else iters * 2, seed, wd)
            r["seed"] = seed
            runs.append(r)
            if r["err"]:
                ctx.violation(f"C15:{name}:chain-raises", f"chain {name} (seed {seed}) raised {r['err']} after {len(r['recs'])} iterations",
                              {"chain": name, "seed": seed})
            elif r["rows"]:
                # Logger.tla, McmcRows, on the file the real MCMC.run left behind (the calling discipline of the loop is the "mcmc"
                # mode of that spec: log(sample=0) after initialize, then log(sample=e) for e = 1..n): rows 0, every, 2 every, ... <= n
                n_done = len(r["recs"])
                every = r["mjson"]["loggers"][0]["every"]
                got_s = [int(float(x["sample"])) for x in r["rows"]]
                want_s = [k * every for k in range(n_done // every + 1)]
                ctx.add("log_files_checked_against_Logger_tla")
                if got_s != want_s:
                    ctx.add("model_drift")
                    ctx.note(f"MODEL-DRIFT bind:logger-cadence chain {name} (seed {seed}): {n_done} iterations with every={every} left rows {got_s[:12]}...; "
                             f"Logger.tla (McmcRows) says {want_s[:12]}...")
    # measured sign of boldness w.r.t. the adapted quantity, per operator type
    signs = {}
    for r in runs:
        for o in r["mc"]._operators:
            n = type(o).__name__
            if n in signs or (n == "HMCOperator"):
                continue
            try:
                a0, b0 = o.adaptable_parameter, boldness(o)
                o.set_adaptable_parameter(a0 + 0.05)
                b1 = boldness(o)
                o.set_adaptable_parameter(a0)
                signs[n] = 1 if b1 >= b0 else -1
            except Exception:
                pass
    ctx.cov["boldness_sign_by_operator"] = signs
    st, gen, viol, cov = exhaustive(ctx, sorted(signs.values()))
    ctx.add("states", st)
    ctx.add("transitions", gen)
    ctx.cov["tlc_mcmc"] = {"distinct": st, "generated": gen, "design_level_violations": sorted(viol),
                           "coverage": {k: list(v) for k, v in cov.items()}}
    miss = [a for a in ("Select", "Propose", "SkipInfinite", "EvalProposed", "Decide", "Accept", "Reject", "Log", "Tune") if cov.get(a, (0, 0))[1] == 0]
    if miss:
        raise Machinery(f"vacuous: Mcmc actions never taken: {miss}")
    # trace validation, one TLC run per chain (ids are per chain)
    for r in runs:
        if not r["recs"]:
            continue
        recs, target, detail, ns, nl = build_records(r)
        nops = len(r["mc"]._operators)
        res, verdicts = validate(ctx, [recs], target, ns, nl, nops)
        ctx.tlc(res, f"TraceMcmc {r['name']} seed {r['seed']}: {len(recs)} iterations")
        ctx.add("evaluations", len(recs))
        for k, rec in enumerate(recs):
            ctx.distinct((r["name"], rec["op"], rec["accepted"], rec["hastKind"], rec["accRel"], rec["sBefore"] == rec["sProp"]))
        if 1 not in verdicts:
            raise Machinery(f"trace of chain {r['name']} was not consumed by TraceMcmc (TLC output: {res.stdout[-800:]})")
        ctx.add("traces_validated_against_impl")
        ctx.sample({"chain": r["name"], "record": recs[len(recs) // 2], "detail": detail[len(recs) // 2]}, limit=4)
        # the spec reports only the first failing clause: strike it out and re-validate to find the others
        seen = 0
        work_recs = recs
        while verdicts[1][0] != "" and seen < 12:
            clause, at = verdicts[1]
            seen += 1
            dt = detail[at - 1]
            if clause.startswith("bind:"):
                ctx.notes.append(f"MODEL-DRIFT: chain {r['name']} iteration {dt['iteration']}: {clause}")
                print(f"MODEL-DRIFT: chain {r['name']} iteration {dt['iteration']}: {clause}: {dt}")
            else:
                ctx.violation(f"C15:{clause}:{dt['optype']}",
                              f"chain {r['name']} seed {r['seed']} iteration {dt['iteration']} operator {dt['operator']} ({dt['optype']}): "
                              f"{CLAUSE_TEXT.get(clause, clause)}; {json.dumps({k: v for k, v in dt.items() if k not in ('operator', 'optype')}, default=str)}",
                              {"chain": r["name"], "seed": r["seed"], "iteration": dt["iteration"], "clause": clause, "detail": dt})
            # neutralise that clause for records of this operator type and continue
            work_recs = neutralise(work_recs, detail, clause, dt["optype"])
            if work_recs is None:
                break
            res, verdicts = validate(ctx, [work_recs], target, ns, nl, nops)
            if 1 not in verdicts:
                break
    shutil.rmtree(work, ignore_errors=True)
    # growth of the specification: the Stan-style windowed warm-up schedule (WindowedAdaptation.tla)
    from . import windowed
    windowed.check(ctx, ctx.tier == "quick")
    # growth of the specification: the logger life cycle the sampling loops drive (Logger.tla)
    from . import loggerspec
    loggerspec.check(ctx, ctx.tier == "quick")
    ctx.cov["rule"] = ("every iteration of every recorded chain is one case; distinct = (chain, operator, accepted, hastings kind, "
                       "acceptance vs target, proposal moved)")


def neutralise(recs, detail, clause, optype):
    """Strike a reported clause out of the records of that operator type so that the remaining
    clauses / operators are still examined (the trace spec reports the first failure only)."""
    if clause == "bind:acceptance-probability":
        return [dict(r, accProbOK=True) for r in recs]
    if clause.startswith("bind:") or clause in ("C_CarriedIsTarget", "C_ProposedIsTarget", "C_NonFiniteNeverAccepted"):
        return None
    out = []
    for rec, dt in zip(recs, detail):
        rec = dict(rec)
        if dt["optype"] == optype or clause == "C_LogConsistent":
            if clause == "C_HastingsRatio":
                rec["hastOK"] = True
            elif clause == "C_Tune":
                rec["judgeTune"] = False
            elif clause == "C_Decision":
                rec["shouldAccept"] = rec["accepted"]
            elif clause == "C_RejectRestores" and not rec["accepted"]:
                rec["sAfter"] = rec["sBefore"]
            elif clause == "C_LogConsistent":
                rec["logged"] = False
        out.append(rec)
    return out
