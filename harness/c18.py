"""C18 - a crash while writing a checkpoint never loses the last good checkpoint.

1. TLC, exhaustive: CheckpointFS.tla (the writer program as currently coded) for
   MaxWrites consecutive (possibly interrupted) writes; invariants Recoverable,
   LastGoodKept, NameNotTruncated.  The historical protocol ("rename2") is run as a
   sensitivity control and must be reported violated by TLC.
2. Fault enumeration on the real code: breadth-first over directory states; in each
   state the real writer is run in a forked child and killed (os._exit) before its
   k-th file-system call, for every k; the parent projects the directory
   (absent / partial / complete(v), parsed with TensorDecoder).
3. code -> spec: every recorded history (calls + crash + observed directory) is
   validated by TraceCheckpointFS.tla in protocol mode (binds the writer program) and,
   if rejected there, in generic mode (POSIX semantics only); TLC evaluates the property
   invariants in every state of every trace.  spec -> code: the set of macro
   transitions (idle state, crash pc) -> idle state of the TLC state graph must equal
   the set observed on the real code.
"""
from __future__ import annotations

import builtins
import io
import json
import os
import shutil
import tempfile

from . import tlc
from .common import Ctx, Machinery, use_src

LEVEL = "model_checking"
PROTOCOL = "replace"      # the program the code is believed to follow (see DESIGN C18)
FAMILY = ("name", "new", "old")


# ---------------------------------------------------------------- real-code side
def _tag(path, base):
    p = os.path.abspath(path)
    if p == base:
        return "name"
    if p == base + ".new":
        return "new"
    if p == base + ".old":
        return "old"
    if os.path.dirname(p) == os.path.dirname(base):
        return "other"
    return None


class _Killer:
    def __init__(self, base, kill_at, logfd, mode="kill"):
        self.base, self.kill_at, self.logfd, self.n, self.mode = base, kill_at, logfd, 0, mode

    def op(self, op, a, b=""):
        self.n += 1
        if self.kill_at is not None and self.n == self.kill_at:
            if self.mode == "kill":
                os._exit(137)
            # the process dies of an exception instead (second Ctrl-C, disk full): cleanup code of the writer still runs
            self.kill_at = None
            raise KeyboardInterrupt("interrupted at a file-system call")
        os.write(self.logfd, (json.dumps({"op": op, "a": a, "b": b}) + "\n").encode())


class _File:
    def __init__(self, f, tag, k):
        self._f, self._tag, self._k = f, tag, k

    def write(self, data):
        self._k.op("write", self._tag)
        return self._f.write(data)

    def writelines(self, lines):
        for ln in lines:
            self.write(ln)

    def close(self):
        if not self._f.closed:
            self._k.op("close", self._tag)
        self._f.close()

    def __enter__(self):
        return self

    def __exit__(self, *a):
        self.close()

    def __getattr__(self, k):
        return getattr(self._f, k)


def _install(base, kill_at, logfd, mode="kill"):
    k = _Killer(base, kill_at, logfd, mode)
    real_open = builtins.open

    def my_open(file, mode="r", *a, **kw):
        tag = _tag(file, base) if isinstance(file, (str, os.PathLike)) else None
        if tag is None or not any(c in mode for c in "wax+"):
            return real_open(file, mode, *a, **kw)
        k.op("open" if "a" not in mode else "open_append", tag)
        return _File(real_open(file, mode, *a, **kw), tag, k)

    builtins.open = my_open
    io.open = my_open

    def wrap2(name, opname):
        real = getattr(os, name)

        def f(src, dst, *a, **kw):
            ta, tb = _tag(src, base), _tag(dst, base)
            if ta is not None or tb is not None:
                k.op(opname, ta or "outside", tb or "outside")
            return real(src, dst, *a, **kw)
        setattr(os, name, f)

    def wrap1(name, opname):
        real = getattr(os, name)

        def f(p, *a, **kw):
            t = _tag(p, base)
            if t is not None:
                k.op(opname, t)
            return real(p, *a, **kw)
        setattr(os, name, f)

    wrap2("rename", "rename")
    wrap2("replace", "rename")
    wrap2("link", "link")
    wrap2("symlink", "symlink")
    wrap1("remove", "remove")
    wrap1("unlink", "remove")
    wrap1("truncate", "truncate")
    return k


WRITERS = {}


def _writer_save_parameters(base, version, big):
    import torch
    from torchtree.core.parameter import Parameter
    from torchtree.core.parameter_utils import save_parameters
    n = 4000 if big else 3
    save_parameters(base, [Parameter("version", torch.full((n,), float(version)))])


def _writer_optimizer(base, version, big):
    import torch
    from torchtree.core.parameter import Parameter
    from torchtree.optim.optimizer import Optimizer
    p = Parameter("version", torch.full((3,), float(version)))
    opt = Optimizer("opt", [p], None, torch.optim.SGD([p.tensor], lr=0.1), 10, checkpoint=base)
    opt.save_full_state(base)


def _writer_mcmc(base, version, big):
    import torch
    from torchtree.core.parameter import Parameter
    from torchtree.inference.mcmc.mcmc import MCMC
    p = Parameter("version", torch.full((3,), float(version)))
    m = MCMC("mcmc", None, [], 10, checkpoint=base)
    m.parameters = [p]
    m.save_full_state()


def _quiet(f):
    import contextlib
    import io
    with contextlib.redirect_stdout(io.StringIO()):
        f()


def _toy(version):
    import torch
    from torchtree.core.parameter import Parameter
    from torchtree.distributions.distributions import Distribution
    p = Parameter("version", torch.full((3,), float(version)))
    loss = Distribution("loss", torch.distributions.Normal, p,
                        {"loc": Parameter(None, torch.tensor([0.0])), "scale": Parameter(None, torch.tensor([1.0]))})
    return p, loss


def _writer_optimizer_run(base, version, big):
    """The periodic checkpoint of the optimisation loop itself (Optimizer._run)."""
    import torch
    from torchtree.optim.optimizer import Optimizer
    from torchtree.distributions.joint_distribution import JointDistributionModel
    p, loss = _toy(version)
    j = JointDistributionModel("j", [loss])
    opt = Optimizer("opt", [p], j, torch.optim.SGD([p.tensor], lr=0.0), 1, checkpoint=base, checkpoint_frequency=1)
    _quiet(opt.run)


def _writer_optimizer_run_lbfgs(base, version, big):
    import torch
    from torchtree.optim.optimizer import Optimizer
    from torchtree.distributions.joint_distribution import JointDistributionModel
    p, loss = _toy(version)
    j = JointDistributionModel("j", [loss])
    p.requires_grad = True
    opt = Optimizer("opt", [p], j, torch.optim.LBFGS([p.tensor], lr=0.0, max_iter=1), 1, checkpoint=base, checkpoint_frequency=1)
    _quiet(opt.run)


def _writer_mcmc_run(base, version, big):
    from torchtree.distributions.joint_distribution import JointDistributionModel
    from torchtree.inference.mcmc.mcmc import MCMC
    from torchtree.inference.mcmc.operator import SlidingWindowOperator
    p, loss = _toy(version)
    j = JointDistributionModel("j", [loss])
    op = SlidingWindowOperator("op", [p], 1.0, 0.24, 0.0, disable_adaptation=True)
    m = MCMC("mcmc", j, [op], 1, checkpoint=base, checkpoint_frequency=1, every=0)
    _quiet(m.run)


WRITERS["save_parameters"] = _writer_save_parameters
WRITERS["Optimizer.run"] = _writer_optimizer_run
WRITERS["Optimizer.run(LBFGS)"] = _writer_optimizer_run_lbfgs
WRITERS["MCMC.run"] = _writer_mcmc_run
WRITERS["Optimizer.save_full_state"] = _writer_optimizer
WRITERS["MCMC.save_full_state"] = _writer_mcmc


def run_child(d, writer, version, kill_at, big=False, mode="kill"):
    """Run the real writer in a forked child, killed before its kill_at-th FS call.
    Returns (exit status, [ops performed])."""
    base = os.path.join(d, "checkpoint.json")
    logp = os.path.join(d, "..", f"oplog-{os.path.basename(d)}")
    logfd = os.open(logp, os.O_WRONLY | os.O_CREAT | os.O_TRUNC)
    pid = os.fork()
    if pid == 0:
        code = 3
        try:
            _install(base, kill_at, logfd, mode)
            WRITERS[writer](base, version, big)
            code = 0
        except SystemExit:
            code = 4
        except BaseException as e:  # the writer raised: report as status 5
            try:
                os.write(logfd, (json.dumps({"op": "raised", "a": type(e).__name__ + ": " + str(e)[:200], "b": ""}) + "\n").encode())
            except Exception:
                pass
            code = 5
        finally:
            os._exit(code)
    _, st = os.waitpid(pid, 0)
    os.close(logfd)
    ops = [json.loads(x) for x in open(logp).read().splitlines() if x.strip()]
    os.remove(logp)
    return os.waitstatus_to_exitcode(st), ops


def project(d):
    """Directory -> abstract fs: absent / partial / complete(version)."""
    from torchtree.core.utils import TensorDecoder
    base = os.path.join(d, "checkpoint.json")
    out = {}
    for tag, p in (("name", base), ("new", base + ".new"), ("old", base + ".old")):
        if not os.path.lexists(p):
            out[tag] = ["absent"]
            continue
        try:
            with open(p) as f:
                doc = json.load(f, cls=TensorDecoder)
            ver = None
            for e in doc:
                if e.get("id") == "version":
                    t = e["tensor"]
                    vals = t.tolist() if hasattr(t, "tolist") else t
                    if len(set(vals)) == 1:
                        ver = int(vals[0])
            out[tag] = ["complete", ver] if ver is not None else ["partial"]
        except Exception:
            out[tag] = ["partial"]
    others = [n for n in os.listdir(d) if n not in ("checkpoint.json", "checkpoint.json.new", "checkpoint.json.old")]
    if others:
        out["other"] = ["partial"]
    return out


def _key(proj):
    return tuple((k, tuple(v)) for k, v in sorted(proj.items()))


def _vkey(inv, before, at):
    kinds = ",".join(f"{f}={before[f][0]}" for f in FAMILY)
    return f"C18:{inv}:before[{kinds}]:crash-at[{at}]"


def _trace_key(trace, inv):
    """Key of a TLC-flagged trace: the same naming as the directory-level verdicts."""
    starts = [i for i, e in enumerate(trace) if e["op"] == "start"]
    i = starts[-1]
    before = {f: ["absent"] for f in FAMILY}
    before["name"] = ["complete", 0]
    for e in trace[:i]:
        if e["op"] in ("crash", "done"):
            before = {f: e["obs"].get(f, ["absent"]) for f in FAMILY}
    last = trace[-1]
    return inv, before, last


def py_invariants(proj, good):
    """The property's invariants evaluated directly on an observed directory."""
    bad = []
    comp = [proj[f][1] for f in FAMILY if proj[f][0] == "complete"]
    if not comp:
        bad.append("Recoverable")
    elif max(comp) < good:
        bad.append("LastGoodKept")
    if proj["name"][0] == "partial":
        bad.append("NameNotTruncated")
    return bad


def enumerate_real(ctx: Ctx, root, writer, max_writes, big=False, write_points="all"):
    """BFS over directory states of the real code.  Returns (traces, macro transitions)."""
    snap_root = os.path.join(root, "snaps")
    os.makedirs(snap_root, exist_ok=True)
    init = os.path.join(snap_root, "s0")
    os.makedirs(init)
    warm = os.path.join(root, "warm")          # lazy imports happen once, in the parent
    os.makedirs(warm)
    WRITERS[writer](os.path.join(warm, "checkpoint.json"), 0, False)
    shutil.rmtree(warm)
    st, ops = run_child(init, writer, 0, None, big)       # the pre-existing checkpoint
    if st != 0:
        raise Machinery(f"initial write failed with status {st}: {ops[-1:]}")
    p0 = project(init)
    if p0["name"] != ["complete", 0]:
        raise Machinery(f"initial checkpoint not readable: {p0}")
    # state: (projection key, writes done, good) -> (snapshot dir, history events)
    frontier = [(init, 0, 0, [])]
    seen = {(_key(p0), 0, 0)}
    traces, macros = [], set()
    nsnap = 0
    while frontier:
        d, nw, good, hist = frontier.pop(0)
        if nw >= max_writes:
            continue
        ver = nw + 1
        before = project(d)
        # dry run on a copy to learn the number of calls
        work = os.path.join(root, "work")
        shutil.rmtree(work, ignore_errors=True)
        shutil.copytree(d, work)
        st, full_ops = run_child(work, writer, ver, None, big)
        n = len(full_ops)
        ks = list(range(1, n + 2))
        if write_points != "all":
            widx = [i + 1 for i, o in enumerate(full_ops) if o["op"] == "write"]
            keep = set(widx[:2] + widx[-2:] + widx[len(widx) // 2: len(widx) // 2 + 1])
            ks = [k for k in ks if k not in widx or k in keep]
        for k in ks:
            shutil.rmtree(work, ignore_errors=True)
            shutil.copytree(d, work)
            kill = k if k <= n else None
            st, ops = run_child(work, writer, ver, kill, big)
            obs = project(work)
            ctx.add("evaluations")
            crashed = kill is not None
            if crashed and st != 137:
                raise Machinery(f"child not killed as planned: status {st} at k={k}")
            if not crashed and st != 0:
                ctx.violation(f"C18:{writer}:writer-raises", f"{writer} raised in state {before}: {ops[-1:]}",
                              {"writer": writer, "history": hist, "state": before})
                continue
            ev = [{"op": "start", "a": "", "b": "", "v": ver, "obs": {}}]
            for o in ops:   # runs of write chunks to one file are one logged event
                if o["op"] == "write" and ev[-1]["op"] == "write" and ev[-1]["a"] == o["a"]:
                    continue
                ev.append({"op": o["op"], "a": o["a"], "b": o["b"], "v": ver, "obs": {}})
            ev.append({"op": "crash" if crashed else "done", "a": "", "b": "", "v": ver, "obs": obs})
            trace = hist + ev
            traces.append(trace)
            at = (full_ops[k - 1]["op"] + ":" + full_ops[k - 1]["a"]) if crashed else "done"
            macros.add((_key(before), at if crashed else "done", _key(obs)))
            ctx.distinct((_key(before), k, _key(obs)))
            ngood = good if crashed else ver
            bad = py_invariants(obs, ngood)
            for inv in bad:
                ctx.violation(_vkey(inv, before, at if crashed else "done"),
                              f"{inv} violated on the real directory after {'crash before call %d (%s)' % (k, at) if crashed else 'completion'}"
                              f" of write {ver}: {obs}; state before: {before}",
                              {"writer": writer, "trace": trace})
            if crashed:
                # the same point, but the process dies of an exception (KeyboardInterrupt raised inside the call): whatever the
                # writer's cleanup code does, the directory must satisfy the same invariants
                shutil.rmtree(work, ignore_errors=True)
                shutil.copytree(d, work)
                st2, ops2 = run_child(work, writer, ver, kill, big, mode="raise")
                obs2 = project(work)
                ctx.add("exception_deaths")
                for inv in py_invariants(obs2, good):
                    ctx.violation(_vkey(inv, before, at) + ":exception", f"{inv} violated on the real directory after the writer was interrupted by an exception "
                                  f"inside call {k} ({at}) of write {ver}: {obs2}; state before: {before}", {"writer": writer, "trace": trace, "mode": "exception"})
                shutil.rmtree(work, ignore_errors=True)
                shutil.copytree(d, work)
                run_child(work, writer, ver, kill, big)          # restore the killed state for the snapshot below
            key = (_key(obs), nw + 1, ngood)
            if key not in seen:
                seen.add(key)
                nsnap += 1
                sd = os.path.join(snap_root, f"s{nsnap}")
                shutil.copytree(work, sd)
                frontier.append((sd, nw + 1, ngood, trace))
    shutil.rmtree(os.path.join(root, "work"), ignore_errors=True)
    return traces, macros


# ---------------------------------------------------------------- spec side
def spec_exhaustive(ctx: Ctx, protocol, max_writes, want_graph=False):
    d = tlc.workdir("c18")
    t, c = tlc.write_mc(d, "MC_CheckpointFS", "CheckpointFS",
                        {"Files": '{"name", "new", "old"}', "MaxWrites": str(max_writes),
                         "Protocol": tlc.tla(protocol), "Safely": "TRUE", "Overwrite": "FALSE"},
                        ["SPECIFICATION Spec", "VIEW View", "INVARIANT TypeOK", "INVARIANT Recoverable",
                         "INVARIANT LastGoodKept", "INVARIANT NameNotTruncated"])
    res = tlc.run(t, c, coverage=True, cont=True, dump=os.path.join(d, "graph") if want_graph else None,
                  workers=1 if want_graph else 16, tag="c18")
    graph = tlc.parse_dot(os.path.join(d, "graph.dot")) if want_graph else None
    shutil.rmtree(d, ignore_errors=True)
    return res, graph


def spec_macros(graph):
    """(idle fs, crash point, idle fs') triples of the spec's state graph."""
    nodes, edges, init = graph
    out_edges = {}
    for a, b, lab in edges:
        out_edges.setdefault(a, []).append((b, lab))

    def fskey(st):
        return tuple((k, tuple(v)) for k, v in sorted(st["fs"].items()))

    PC2CALL = {"open": "open", "write": "write", "close": "close", "ren1": "rename", "ren2": "rename",
               "rm": "remove", "replace": "rename"}
    macros = set()
    for nid, st in nodes.items():
        if st["pc"] != "idle":
            continue
        for b, lab in out_edges.get(nid, []):
            if lab != "Start":
                continue
            # walk the non-idle part
            stack, seen = [b], {b}
            while stack:
                x = stack.pop()
                sx = nodes[x]
                for y, lab2 in out_edges.get(x, []):
                    sy = nodes[y]
                    if sy["pc"] == "idle":
                        if lab2 == "Crash":
                            pcx = sx["pc"]
                            tgt = sx["target"]
                            call = PC2CALL[pcx]
                            a = {"ren1": "name", "ren2": "new", "replace": "new", "rm": "old"}.get(pcx, tgt)
                            macros.add((fskey(st), f"{call}:{a}", fskey(sy)))
                        else:
                            macros.add((fskey(st), "done", fskey(sy)))
                    elif y not in seen:
                        seen.add(y)
                        stack.append(y)
    return macros


def validate_traces(ctx: Ctx, traces, mode, max_writes):
    d = tlc.workdir("c18t")
    tf = os.path.join(d, "traces.json")
    with open(tf, "w") as f:
        json.dump(traces, f)
    t, c = tlc.write_mc(d, "MC_TraceCheckpointFS", "TraceCheckpointFS",
                        {"Files": '{"name", "new", "old", "other"}', "MaxWrites": str(max_writes + 1),
                         "Protocol": tlc.tla(PROTOCOL), "Safely": "TRUE", "Overwrite": "FALSE",
                         "Mode": tlc.tla(mode)},
                        ["SPECIFICATION TSpec", "INVARIANT Recoverable", "INVARIANT LastGoodKept",
                         "INVARIANT NameNotTruncated"])
    res = tlc.run(t, c, workers=1, cont=True, env={"TRACE_FILE": tf}, tag="c18t", timeout=1200)
    shutil.rmtree(d, ignore_errors=True)
    accepted = {p[1] for p in res.prints if isinstance(p, tuple) and len(p) == 2 and p[0] == "ACCEPT"}
    violated = {}
    for v in res.violations:
        if v.trace:
            tid = v.trace[-1][1].get("tid")
            if tid is None:
                raise Machinery("unparsable counterexample in trace validation")
            violated.setdefault(tid, set()).add(v.name)
    return res, accepted, violated


def run(ctx: Ctx):
    use_src()
    import torch
    torch.set_num_threads(1)
    quick = ctx.tier == "quick"
    max_writes = 3 if quick else 4
    ctx.assumptions += [
        "process death, not power loss: data handed to the OS survive, user-space buffers are lost",
        "POSIX rename/replace are atomic",
        "a checkpoint exists under the checkpoint name before the first modelled write (the property's premise)",
    ]
    # 1. exhaustive TLC on the writer program as coded
    res, graph = spec_exhaustive(ctx, PROTOCOL, max_writes, want_graph=True)
    ctx.tlc(res, f"CheckpointFS Protocol={PROTOCOL} MaxWrites={max_writes}")
    needed = ["Start", "Open", "Write", "Close", "Crash"] + (["Replace"] if PROTOCOL == "replace" else ["Ren1", "Ren2", "Rm"])
    miss = tlc.require_coverage(res, needed)
    if miss:
        raise Machinery(f"vacuous exploration: actions never taken: {miss}")
    design_violations = sorted({v.name for v in res.violations})
    ctx.cov["design_level_violations"] = design_violations
    # sensitivity control: the historical protocol must be flagged by TLC
    res_old, _ = spec_exhaustive(ctx, "rename2", max_writes)
    ctx.tlc(res_old, "control: CheckpointFS Protocol=rename2 (as shipped at the pinned commit)")
    if "NameNotTruncated" not in {v.name for v in res_old.violations}:
        raise Machinery("control failed: TLC no longer reports the rename2 protocol as violating NameNotTruncated")
    smac = spec_macros(graph)

    # 2. fault enumeration on the real code
    root = tempfile.mkdtemp(prefix="c18-", dir=tlc.workdir("c18fs"))
    all_traces = []
    real_mac = {}
    writers = ["save_parameters"] if quick else list(WRITERS)
    for w in writers:
        tr, mac = enumerate_real(ctx, os.path.join(root, w.replace(".", "_").replace("(", "_").replace(")", "")), w, max_writes,
                                 write_points="some")
        all_traces += tr
        real_mac[w] = mac
    # all write chunks as crash points, big document (buffer flushes mid-way), fewer writes
    tr, mac = enumerate_real(ctx, os.path.join(root, "big"), "save_parameters", 2, big=True, write_points="some")
    all_traces += tr
    if quick:
        for w in ("Optimizer.save_full_state", "MCMC.save_full_state", "Optimizer.run", "Optimizer.run(LBFGS)", "MCMC.run"):
            tr, mac2 = enumerate_real(ctx, os.path.join(root, w.replace(".", "_").replace("(", "_").replace(")", "")), w, 2, write_points="some")
            all_traces += tr
    shutil.rmtree(root, ignore_errors=True)

    # 3a. code -> spec
    ctx.sample({"trace": all_traces[len(all_traces) // 2]}, limit=2)
    resT, acc, vio = validate_traces(ctx, all_traces, "protocol", max_writes)
    ctx.tlc(resT, "TraceCheckpointFS protocol mode")
    ids = set(range(1, len(all_traces) + 1))
    rejected = ids - acc - set(vio)
    drift = []
    if rejected or vio:
        sub = sorted(rejected | set(vio))
        resG, accG, vioG = validate_traces(ctx, [all_traces[i - 1] for i in sub], "generic", max_writes)
        ctx.tlc(resG, "TraceCheckpointFS generic mode")
        for j, i in enumerate(sub, 1):
            if j in vioG:
                for inv in sorted(vioG[j]):
                    # TLC evaluates the invariants in every state of the recorded trace (also mid-write)
                    _, before, _ = _trace_key(all_traces[i - 1], inv)
                    ctx.violation(_vkey(inv, before, "trace"), f"TLC: invariant {inv} violated on recorded trace {i}",
                                  {"trace": all_traces[i - 1]})
            elif j not in accG:
                drift.append(i)
        if rejected:
            ctx.notes.append(f"MODEL-DRIFT: {len(rejected)} recorded traces are not behaviours of the writer program "
                             f"CheckpointFS(Protocol={PROTOCOL}); judged in generic mode")
            print(f"MODEL-DRIFT: {len(rejected)} traces rejected in protocol mode (first: trace {min(rejected)})")
        if drift:
            ctx.notes.append(f"{len(drift)} traces not explained by the POSIX model either; judged on observed directories only")
    ctx.cov["traces_validated_against_impl"] = len(acc)
    ctx.cov["traces_total"] = len(all_traces)
    ctx.cov["traces_rejected_protocol_mode"] = len(rejected)

    # 3b. spec -> code: macro transitions of the state graph vs the real ones
    rm = real_mac["save_parameters"]
    only_spec = smac - rm
    only_real = rm - smac
    ctx.cov["macro_transitions_spec"] = len(smac)
    ctx.cov["macro_transitions_real"] = len(rm)
    ctx.cov["macro_only_spec"] = len(only_spec)
    ctx.cov["macro_only_real"] = len(only_real)
    if only_spec or only_real:
        ctx.notes.append(f"MODEL-DRIFT: macro transitions differ (spec only {len(only_spec)}, real only {len(only_real)})")
        print(f"MODEL-DRIFT: macro transitions differ: spec-only {sorted(only_spec)[:2]} real-only {sorted(only_real)[:2]}")
    # design-level violations are reported only if the real code reproduced them (done above via the
    # enumeration); an unreproduced one with no drift is a spec error
    if design_violations and not ctx.violations and not ctx.known_seen and not (only_spec or only_real or rejected):
        raise Machinery(f"TLC reports {design_violations} on the writer program but the real code conforms and shows none")
    ctx.cov["exhaustive"] = True
    # unbounded safety of the design: inductive invariant of the replace protocol discharged with Apalache
    if ctx.tier == "thorough" or os.environ.get("VERIF_APALACHE") == "1":
        from . import apalache
        apalache.check(ctx)
    ctx.cov["rule"] = ("every reachable directory state x every file-system call of the real writer as crash point "
                       f"(write chunks: first two, middle, last two), up to {max_writes} consecutive writes; "
                       "distinct = (state before, crash call index, state after)")
    ctx.cov["explanation"] = "TLC exhaustive on CheckpointFS + real fork/kill enumeration validated by TraceCheckpointFS"
