"""C01 - the tree log-likelihood equals exact marginalisation over ancestral states.

1. TLC: Pruning.tla - the recursion as coded (post-order triples, matrix index = child index,
   categories, root frequencies / proportions) equals the definitional marginal, exactly, for
   every ordered labelled tree (3 and 4 taxa; 5 taxa thorough) and every choice of tip state sets.
2. Kernel level (exact): every emitted case goes through the five real kernels of
   tree_likelihood.py with the real tree model's post-order (built from the Newick string) and the
   spec's integer matrices; exp(log-likelihood) must be the integer.
3. Model level: TreeLikelihoodModel built from JSON for substitution model x site model x tree /
   clock model x tip representation on every topology of 3..5 taxa (random ones above) with
   ambiguity codes, gaps and repeated columns, compared with the transliterated marginal using
   transition matrices expm(Q_spec * b * r) from C04's Q and C05's rates (1e-9 relative).  The
   transliteration is re-validated on the TLC-emitted cases.
"""
from __future__ import annotations

import itertools
import json
import math
import random
import shutil

from . import tlc
from . import oracle_phylo as O
from .common import Ctx, Machinery, use_src

LEVEL = "model_checking"

IUPAC = {"A": "A", "C": "C", "G": "G", "T": "T", "U": "T", "R": "AG", "Y": "CT", "M": "AC", "W": "AT", "S": "CG", "K": "GT",
         "B": "CGT", "D": "AGT", "H": "ACT", "V": "ACG", "N": "ACGT", "?": "ACGT", "-": "ACGT"}


def mat(b, k, i, j):
    return 1 + ((3 * i + 5 * j + 7 * b + 11 * k + i * j) % 5)


def tree_from_spec(t):
    return int(t[1]) if t[0] == "L" else (tree_from_spec(t[1]), tree_from_spec(t[2]))


def newick(t, names, bl=None):
    def rec(x):
        if isinstance(x, int):
            return names[x] + (f":{bl[x]}" if bl else "")
        return "(" + rec(x[0]) + "," + rec(x[1]) + ")"
    return rec(t) + ";"


def run_tlc(n, ns, tipsets, emit, mod, workers):
    d = tlc.workdir("c01")
    t, c = tlc.write_mc(d, "MC_Pruning", "Pruning",
                        {"NTaxa": str(n), "NS": str(ns), "K": "2", "TipSets": tipsets, "Emit": "TRUE" if emit else "FALSE", "EmitMod": str(mod)},
                        ["SPECIFICATION Spec"] + ([] if emit else ["INVARIANT PruningIsMarginal"]))
    res = tlc.run(t, c, workers=workers, tag="c01", timeout=1500)
    shutil.rmtree(d, ignore_errors=True)
    return res


# ------------------------------------------------------------------ kernel level
def taxa_json(names, dates=None):
    return {"id": "taxa", "type": "Taxa", "taxa": [dict({"id": n, "type": "Taxon"}, **({"attributes": {"date": dates[i]}} if dates else {}))
                                                   for i, n in enumerate(names)]}


def real_postorder(tree, n):
    from torchtree.core.utils import process_object
    names = [f"t{i}" for i in range(n)]
    dic = {}
    process_object(taxa_json(names), dic)
    tm = process_object({"id": "tree", "type": "UnRootedTreeModel", "newick": newick(tree, names), "taxa": "taxa",
                         "branch_lengths": {"id": "bl", "type": "Parameter", "tensor": [0.1] * (2 * n - 3)}}, dic)
    return [tuple(int(x) for x in tr) for tr in tm.postorder]


def check_kernels(ctx: Ctx, cases, n, ns, K):
    """Group the emitted cases by tree; all tip configurations of a tree are the sites of one call."""
    import torch
    import torchtree.evolution.tree_likelihood as TL
    by_tree = {}
    for c in cases:
        by_tree.setdefault(json.dumps(c["tree"]), []).append(c)
    nb = 2 * n - 1
    mats = torch.tensor([[[[float(mat(b, k, i, j)) for j in range(ns)] for i in range(ns)] for k in range(K)] for b in range(nb)])
    freqs = torch.tensor([[float(i + 1) for i in range(ns)]])
    props = torch.tensor([float(k + 2) for k in range(K)]).reshape(K, 1, 1)
    rnd = random.Random(1)
    for tj, cs in by_tree.items():
        tree = tree_from_spec(json.loads(tj))
        post = real_postorder(tree, n)
        spec_post = [tuple(x) for x in cs[0]["post"]]
        if post != spec_post:
            ctx.violation("C01:postorder", f"tree {newick(tree, ['t%d' % i for i in range(n)])}: real post-order {post} differs from the specified {spec_post}",
                          {"tree": json.loads(tj)})
            continue
        nsite = len(cs)
        w = torch.tensor([float(rnd.randint(1, 4)) for _ in range(nsite)])
        expected = sum(float(wi) * math.log(c["lik"]) for wi, c in zip(w, cs))
        tipsets = [[set(c["tips"][leaf]) for c in cs] for leaf in range(n)]
        partials = [torch.tensor([[1.0 if i in tipsets[leaf][s] else 0.0 for s in range(nsite)] for i in range(ns)]) for leaf in range(n)]
        single = [all(len(tipsets[leaf][s]) == 1 for leaf in range(n)) for s in range(nsite)]   # the unknown-state column assumes stochastic rows: model level
        idx = [s for s in range(nsite) if single[s]]
        states = [torch.tensor([next(iter(tipsets[leaf][s])) if len(tipsets[leaf][s]) == 1 else ns for s in idx], dtype=torch.long) for leaf in range(n)]
        exp_states = sum(float(w[s]) * math.log(cs[s]["lik"]) for s in idx)
        runs = [
            ("calculate_treelikelihood_discrete", lambda: TL.calculate_treelikelihood_discrete(list(partials) + [None] * (n - 1), w, post, mats, freqs, props), expected),
            ("calculate_treelikelihood_discrete_rescaled", lambda: TL.calculate_treelikelihood_discrete_rescaled(list(partials) + [None] * (n - 1), w, post, mats, freqs, props), expected),
            ("calculate_treelikelihood_tip_states_discrete", lambda: TL.calculate_treelikelihood_tip_states_discrete(list(states) + [None] * (n - 1), w[idx], post, mats, freqs, props), exp_states),
            ("calculate_treelikelihood_tip_states_discrete_rescaled", lambda: TL.calculate_treelikelihood_tip_states_discrete_rescaled(list(states) + [None] * (n - 1), w[idx], post, mats, freqs, props), exp_states),
        ]

        def safe():
            parts = list(partials) + [None] * (n - 1)
            TL.calculate_treelikelihood_discrete(parts, w, post, mats, freqs, props)       # fills the internal partials, as the model does
            return TL.calculate_treelikelihood_discrete_safe(parts, w, post, mats, freqs, props, 1e300)
        runs.append(("calculate_treelikelihood_discrete_safe", safe, expected))
        # batched: two copies of the matrices stacked along a leading dimension, the second doubled
        mats_b = torch.stack([mats, mats])
        runs.append(("calculate_treelikelihood_discrete[batched]",
                     lambda: TL.calculate_treelikelihood_discrete(list(partials) + [None] * (n - 1), w, post, mats_b, freqs, props)[1], expected))
        for name, f, want in runs:
            ctx.add("evaluations", nsite)
            try:
                got = float(f().reshape(-1)[0])
            except Exception as e:
                ctx.violation(f"C01:kernel:{name}:raises", f"{name} raised {type(e).__name__}: {e} on tree {tj}", {"tree": json.loads(tj)})
                continue
            if not abs(got - want) <= 1e-11 * max(1.0, abs(want)):
                ctx.violation(f"C01:kernel:{name}", f"{name}: log-likelihood {got!r} differs from the exact marginal {want!r} on tree "
                              f"{newick(tree, ['t%d' % i for i in range(n)])} ({nsite} sites = tip configurations)", {"tree": json.loads(tj)})
        ctx.add("traces_validated_against_impl")
    return len(by_tree)


# ------------------------------------------------------------------ model level
def P(id_, t):
    return {"id": id_, "type": "Parameter", "tensor": t}


SUBST = {
    "JC69": (lambda: {"id": "sm", "type": "JC69"}, ("JC69", [0.25] * 4, [], [])),
    "HKY": (lambda: {"id": "sm", "type": "HKY", "kappa": P("kappa", [3.5]), "frequencies": P("freqs", [0.1, 0.2, 0.3, 0.4])},
            ("HKY", [0.1, 0.2, 0.3, 0.4], [3.5], [])),
    "GTR": (lambda: {"id": "sm", "type": "GTR", "rates": P("rates", [0.4, 2.1, 0.7, 1.3, 3.0, 1.0]), "frequencies": P("freqs", [0.35, 0.15, 0.2, 0.3])},
            ("GTR", [0.35, 0.15, 0.2, 0.3], [0.4, 2.1, 0.7, 1.3, 3.0, 1.0], [])),
    "GENSYM": (lambda: {"id": "sm", "type": "GeneralSymmetricSubstitutionModel", "data_type": "data_type", "mapping": [0, 1, 0, 0, 1, 2],
                        "rates": P("rates", [1.0, 4.0, 0.5]), "frequencies": P("freqs", [0.4, 0.1, 0.3, 0.2])},
               ("GENSYM", [0.4, 0.1, 0.3, 0.2], [1.0, 4.0, 0.5], [0, 1, 0, 0, 1, 2])),
    "GENNONSYM": (lambda: {"id": "sm", "type": "GeneralNonSymmetricSubstitutionModel", "data_type": "data_type",
                           "mapping": [0, 1, 2, 3, 4, 5, 5, 4, 3, 2, 1, 0], "rates": P("rates", [1.0, 2.0, 0.3, 0.7, 1.5, 3.0]),
                           "frequencies": P("freqs", [0.3, 0.2, 0.1, 0.4])},
                  ("GENNONSYM", [0.3, 0.2, 0.1, 0.4], [1.0, 2.0, 0.3, 0.7, 1.5, 3.0], [0, 1, 2, 3, 4, 5, 5, 4, 3, 2, 1, 0])),
}
SITE = {
    "constant": (lambda: {"id": "site", "type": "ConstantSiteModel"}, ("constant", 1, None, None, None)),
    "invariant": (lambda: {"id": "site", "type": "InvariantSiteModel", "invariant": P("pinv", [0.2])}, ("invariant", 1, None, 0.2, None)),
    "weibull3": (lambda: {"id": "site", "type": "WeibullSiteModel", "categories": 3, "shape": P("shape", [0.6])}, ("weibull", 3, 0.6, None, None)),
    "weibull2inv": (lambda: {"id": "site", "type": "WeibullSiteModel", "categories": 2, "shape": P("shape", [1.7]), "invariant": P("pinv", [0.3])},
                    ("weibull", 2, 1.7, 0.3, None)),
}


def tipset(sym, mode):
    """States (0..3) a symbol stands for under the tip representation option."""
    s = sym.upper()
    if mode == "ambiguities":
        return {"ACGT".index(x) for x in IUPAC[s]}
    # without use_ambiguities, and with tip states, anything but A C G T U is missing data
    return {"ACGT".index(IUPAC[s])} if s in "ACGTU" else {0, 1, 2, 3}


def random_tree(rnd, n):
    items = list(range(n))
    rnd.shuffle(items)
    while len(items) > 1:
        i, j = rnd.sample(range(len(items)), 2)
        a, b = items[i], items[j]
        items = [x for k, x in enumerate(items) if k not in (i, j)] + [(a, b)]
    return items[0]


def heights_for(tree, n, rnd, tipdates):
    """Node heights per node index (post-order internal indices), strictly above children."""
    triples, root = O.postorder_triples(tree, n)
    h = {i: tipdates[i] for i in range(n)}
    for node, l, r in triples:
        h[node] = max(h[l], h[r]) + rnd.uniform(0.05, 0.4)
    return triples, root, h


def model_case(ctx: Ctx, rnd, tree, n, subst, site, treekind, tipmode, seqs):
    import torch
    from torchtree.core.utils import process_object
    names = [f"t{i}" for i in range(n)]
    order = list(range(n))
    dic = {}
    key = (json.dumps(tree), subst, site, treekind, tipmode, "".join(seqs))
    ctx.add("evaluations")
    ctx.distinct(key, any(ch not in "ACGT" for s in seqs for ch in s))
    dates = None
    triples, root = O.postorder_triples(tree, n)
    nb = 2 * n - 2
    if treekind == "unrooted":
        bl = [round(rnd.uniform(0.01, 0.6), 4) for _ in range(2 * n - 3)]
        bl_by_node = {i: bl[i] for i in range(2 * n - 3)}
        bl_by_node[2 * n - 3] = 0.0
        tree_js = {"id": "tree", "type": "UnRootedTreeModel", "newick": newick(tree, names), "taxa": "taxa", "branch_lengths": P("bl", bl)}
        clock_js = None
    else:
        tipdates = [0.0] * n if treekind == "time-strict-iso" else [float(rnd.choice([0, 0, 1, 2])) for _ in range(n)]
        if max(tipdates) > 0 and min(tipdates) > 0:
            tipdates[0] = 0.0
        dates = tipdates           # dates given as ages (minimum 0)
        _, _, h = heights_for(tree, n, rnd, tipdates)
        internal = [h[i] for i in range(n, 2 * n - 1)]
        tree_js = {"id": "tree", "type": "TimeTreeModel", "newick": newick(tree, names), "taxa": "taxa", "internal_heights": P("heights", internal)}
        parent = {}
        for node, l, r in triples:
            parent[l] = node
            parent[r] = node
        if treekind == "time-variable":
            rates = [round(rnd.uniform(0.2, 2.0), 3) for _ in range(nb)]
            clock_js = {"id": "clock", "type": "SimpleClockModel", "tree_model": "tree", "rate": P("rate", rates)}
        else:
            rates = [0.8] * nb
            clock_js = {"id": "clock", "type": "StrictClockModel", "tree_model": "tree", "rate": P("rate", [0.8])}
        bl_by_node = {c: (h[parent[c]] - h[c]) * rates[c] for c in range(2 * n - 2)}
    sub_js, (model, pi, rts, mapping) = SUBST[subst][0](), SUBST[subst][1]
    site_js, (skind, K, shape, pinv, mu) = SITE[site][0](), SITE[site][1]
    doc = [taxa_json(names, dates),
           {"id": "data_type", "type": "NucleotideDataType"},
           {"id": "alignment", "type": "Alignment", "datatype": "data_type", "taxa": "taxa",
            "sequences": [{"taxon": names[i], "sequence": seqs[i]} for i in order]},
           {"id": "like", "type": "TreeLikelihoodModel", "tree_model": tree_js, "site_model": site_js, "substitution_model": sub_js,
            "site_pattern": {"id": "patterns", "type": "SitePattern", "alignment": "alignment"}}]
    if clock_js:
        doc[-1]["branch_model"] = clock_js
    if tipmode == "ambiguities":
        doc[-1]["use_ambiguities"] = True
    elif tipmode == "states":
        doc[-1]["use_tip_states"] = True
    try:
        for e in doc:
            process_object(e, dic)
        got = float(dic["like"]())
    except Exception as e:
        ctx.violation(f"C01:model:raises:{subst}:{site}:{treekind}:{tipmode}", f"TreeLikelihoodModel raised {type(e).__name__}: {e}; doc={json.dumps(doc)[:600]}",
                      {"doc": doc})
        return
    # reference
    Q = O.q_norm(model, 4, pi, rts, mapping)
    rates_k, probs_k = O.site_model(skind, K, shape, pinv, mu)
    cache = {}
    mats = []
    for rk in rates_k:
        per_branch = {}
        for c, b in bl_by_node.items():
            tkey = round(b * rk, 15)
            if tkey not in cache:
                cache[tkey] = O.expm(Q, b * rk)
            per_branch[c] = cache[tkey]
        mats.append(per_branch)
    mode = "ambiguities" if tipmode == "ambiguities" else "plain"
    total = 0.0
    for col in range(len(seqs[0])):
        sets = [tipset(seqs[leaf][col], mode) for leaf in range(n)]
        lk = O.marginal(triples, root, n, sets, mats, pi, probs_k, 4) if n <= 5 else O.pruning(triples, root, n, sets, mats, pi, probs_k, 4)
        total += math.log(lk)
    if not abs(got - total) <= 1e-9 * max(1.0, abs(total)):
        ctx.violation(f"C01:model:{subst}:{site}:{treekind}:{tipmode}",
                      f"log-likelihood {got!r} differs from exact marginalisation {total!r} (rel {abs(got - total) / max(1, abs(total)):.3g}); tree "
                      f"{newick(tree, names)} seqs={seqs}", {"doc": doc, "expected": total, "got": got})
        return
    # history on a live time tree: new internal heights are assigned and the likelihood is evaluated again - it must be the
    # value of the NEW tree (all internal nodes moved up by the same amount: every pendant branch grows, inner branches keep their length)
    if treekind != "unrooted" and n <= 5:
        import torch as _t
        shift = 0.37
        dic["heights"].tensor = _t.tensor([v + shift for v in internal])
        try:
            got2 = float(dic["like"]())
        except Exception as e:
            ctx.violation(f"C01:model:raises:{subst}:{site}:{treekind}:{tipmode}", f"re-evaluation after new heights raised {type(e).__name__}: {e}", {"doc": doc})
            return
        h2 = {i: h[i] + (shift if i >= n else 0.0) for i in range(2 * n - 1)}
        bl2 = {c: (h2[parent[c]] - h2[c]) * rates[c] for c in range(2 * n - 2)}
        mats2 = []
        for rk in rates_k:
            per_branch = {}
            for c, b in bl2.items():
                tkey = round(b * rk, 15)
                if tkey not in cache:
                    cache[tkey] = O.expm(Q, b * rk)
                per_branch[c] = cache[tkey]
            mats2.append(per_branch)
        total2 = 0.0
        for col in range(len(seqs[0])):
            sets = [tipset(seqs[leaf][col], mode) for leaf in range(n)]
            total2 += math.log(O.marginal(triples, root, n, sets, mats2, pi, probs_k, 4))
        ctx.add("height_update_histories")
        if not abs(got2 - total2) <= 1e-9 * max(1.0, abs(total2)):
            ctx.violation(f"C01:model:after-height-update:{treekind}", f"after assigning new internal heights the log-likelihood is {got2!r}; exact marginalisation on the new "
                          f"tree gives {total2!r} (the value before the update was {got!r})", {"doc": doc, "expected": total2, "got": got2})


AA_ORDER = "ACDEFGHIKLMNPQRSTVWY"          # state order of AminoAcidDataType


def aa_case(ctx: Ctx, rnd, model, tipmode):
    """Amino-acid alignment on a 3-taxon unrooted tree: 20 states, N is asparagine (a STATE, not 'unknown'), columns made only of N and / or
    gaps must count like any other column.  Reference: marginalisation over the 20 internal states with the model's own normalised rate
    matrix exponentiated independently (scaling and squaring in numpy)."""
    import torch
    from torchtree.core.utils import process_object
    n = 3
    names = [f"t{i}" for i in range(n)]
    tree = (0, (1, 2))
    cols = ["NNN", "N-N", "?N-", "---"] + ["".join(rnd.choice(AA_ORDER + "-X") for _ in range(n)) for _ in range(5)] + ["NNN"]
    seqs = ["".join(c[i] for c in cols) for i in range(n)]
    bl = [round(rnd.uniform(0.05, 0.8), 4) for _ in range(2 * n - 3)]
    doc = [taxa_json(names), {"id": "data_type", "type": "AminoAcidDataType"},
           {"id": "alignment", "type": "Alignment", "datatype": "data_type", "taxa": "taxa", "sequences": [{"taxon": names[i], "sequence": seqs[i]} for i in range(n)]},
           {"id": "like", "type": "TreeLikelihoodModel",
            "tree_model": {"id": "tree", "type": "UnRootedTreeModel", "newick": newick(tree, names), "taxa": "taxa", "branch_lengths": P("bl", bl)},
            "site_model": {"id": "site", "type": "ConstantSiteModel"}, "substitution_model": {"id": "sm", "type": model},
            "site_pattern": {"id": "patterns", "type": "SitePattern", "alignment": "alignment"}}]
    if tipmode == "states":
        doc[-1]["use_tip_states"] = True
    ctx.add("evaluations")
    ctx.distinct(("aa", model, tipmode, "".join(seqs)), True)
    dic = {}
    try:
        for e in doc:
            process_object(e, dic)
        got = float(dic["like"]())
    except Exception as e:
        ctx.violation(f"C01:model:raises:{model}:aa:{tipmode}", f"TreeLikelihoodModel raised {type(e).__name__}: {e}", {"doc": doc})
        return
    sm = dic["sm"]
    Q = sm.q().detach().reshape(20, 20)
    pi = sm.frequencies.detach().reshape(-1)
    Q = (Q / -(torch.diagonal(Q) * pi).sum()).tolist()
    pi = pi.tolist()
    triples, root = O.postorder_triples(tree, n)
    bl_by_node = {i: bl[i] for i in range(2 * n - 3)}
    bl_by_node[2 * n - 3] = 0.0
    mats = [{c: O.expm_np(Q, b).tolist() for c, b in bl_by_node.items()}]

    def tset(ch):
        return {AA_ORDER.index(ch)} if ch in AA_ORDER else set(range(20))
    total = 0.0
    for col in cols:
        total += math.log(O.marginal(triples, root, n, [tset(col[leaf]) for leaf in range(n)], mats, pi, [1.0], 20))
    if not abs(got - total) <= 1e-8 * max(1.0, abs(total)):
        ctx.violation(f"C01:model:{model}:aa:{tipmode}", f"amino-acid alignment {seqs}: log-likelihood {got!r} differs from marginalisation over the 20 states {total!r}",
                      {"doc": doc, "expected": total, "got": got})


def all_topologies(n):
    """One ordered tree per labelled rooted topology (canonical child order), plus their mirror images."""
    out = []

    def build(leaves):
        if len(leaves) == 1:
            return [leaves[0]]
        res = []
        first = leaves[0]
        rest = leaves[1:]
        for r in range(0, len(rest)):
            for comb in itertools.combinations(rest, r):
                A = [first] + list(comb)
                B = [x for x in rest if x not in comb]
                if not B:
                    continue
                for a in build(A):
                    for b in build(B):
                        res.append((a, b))
        return res
    return build(list(range(n)))


def run(ctx: Ctx):
    use_src()
    import logging
    logging.disable(logging.CRITICAL)
    quick = ctx.tier == "quick"
    all7 = "{{0},{1},{2},{3},{0,2},{1,3},{0,1,2,3}}"
    three = "{{0},{2},{0,1,2,3}}"
    plans = [(3, 4, all7, 1), (4, 4, three, 5)] + ([] if quick else [(4, 4, "{{1},{3},{0,2},{0,1,2,3}}", 7)])
    for n, ns, ts, mod in plans:
        res = run_tlc(n, ns, ts, False, 1, 16)
        ctx.tlc(res, f"Pruning n={n} |S|={ns} K=2 tipsets={ts}")
        if res.violations:
            raise Machinery(f"Pruning.tla: recursion differs from the marginal (spec error?): {res.violations[0].trace[-1][1]}")
        em = run_tlc(n, ns, ts, True, mod, 8)
        cases = em.emitted("CASE")
        if not cases:
            raise Machinery("no cases emitted")
        # self-check of the transliterated marginal / pruning / post-order on emitted cases
        for c in cases[:: max(1, len(cases) // 150)]:
            tree = tree_from_spec(c["tree"])
            triples, root = O.postorder_triples(tree, n)
            if [list(t) for t in triples] != [list(t) for t in c["post"]]:
                raise Machinery(f"oracle post-order differs from Trees.tla on {c['tree']}")
            mats = [{b: [[mat(b, k, i, j) for j in range(ns)] for i in range(ns)] for b in range(2 * n - 1)} for k in range(2)]
            sets = [set(x) for x in c["tips"]]
            a = O.marginal(triples, root, n, sets, mats, [i + 1 for i in range(ns)], [2, 3], ns)
            b = O.pruning(triples, root, n, sets, mats, [i + 1 for i in range(ns)], [2, 3], ns)
            if a != c["lik"] or b != c["lik"]:
                raise Machinery(f"oracle marginal/pruning ({a}/{b}) differs from Pruning.tla ({c['lik']})")
            ctx.add("oracle_self_checks")
        ntrees = check_kernels(ctx, cases, n, ns, 2)
        ctx.sample({"tree": cases[3]["tree"], "tips": cases[3]["tips"], "lik": cases[3]["lik"]}, limit=3)
        ctx.add("trees_replayed", ntrees)
    # model level
    rnd = random.Random(ctx.seed + 1)
    alphabet = "ACGTUKMRSWYBDHVN?-"
    combos = list(itertools.product(SUBST, SITE, ["unrooted", "time-strict-iso", "time-strict-hetero", "time-variable"], ["plain", "ambiguities", "states"]))
    topo = {n: all_topologies(n) for n in (3, 4, 5)}
    ncase = 0
    for ci, (subst, site, treekind, tipmode) in enumerate(combos):
        sizes = [3, 4] if quick else [3, 4, 5, 6]
        n = sizes[ci % len(sizes)]
        trees = topo[n] if n in topo else [random_tree(rnd, n) for _ in range(4)]
        reps = 2 if quick else 6
        for r in range(reps):
            tree = trees[(ci * 7 + r * 3) % len(trees)]
            if rnd.random() < 0.5:
                tree = (tree[1], tree[0])            # child order
            L = 5
            seqs = ["".join(rnd.choice(alphabet if rnd.random() < 0.35 else "ACGT") for _ in range(L)) for _ in range(n)]
            dup = rnd.randrange(L)                   # a repeated column
            seqs = [s + s[dup] + s[0] for s in seqs]
            model_case(ctx, rnd, tree, n, subst, site, treekind, tipmode, seqs)
            ncase += 1
    if not quick:
        for n in (7, 8):
            for _ in range(6):
                tree = random_tree(rnd, n)
                seqs = ["".join(rnd.choice("ACGTRYN-") for _ in range(4)) for _ in range(n)]
                model_case(ctx, rnd, tree, n, rnd.choice(list(SUBST)), rnd.choice(list(SITE)), rnd.choice(["unrooted", "time-variable"]),
                           rnd.choice(["plain", "ambiguities", "states"]), seqs)
    # amino-acid alphabet at the model level (alignment -> site patterns -> tip partials / states -> likelihood)
    for model in ("LG", "WAG"):
        for tipmode in ("plain", "states"):
            for _ in range(1 if quick else 4):
                aa_case(ctx, rnd, model, tipmode)
                ncase += 1
    ctx.cov["model_level_cases"] = ncase
    ctx.cov["exhaustive"] = True
    ctx.cov["rule"] = ("kernel level: every TLC-emitted (tree, tip sets) case as one site of a call per tree; model level: one case per "
                       "(substitution, site, tree/clock, tip representation, topology, alignment); non-trivial = alignment with ambiguity / gap symbols")
    ctx.assumptions += ["the codon alphabet is covered at the rate-matrix level (C04) and by the kernel-level check (the kernels are alphabet-agnostic), not at the model level; "
                        "amino-acid alignments (LG, WAG) are checked at the model level with the model's own rate matrix exponentiated independently",
                        "reference transition matrices: mpmath expm of the spec's Q (C04) with the spec's category rates (C05)"]
