"""Plates.tla <-> core/utils.py:expand_plates.

TLC simulation draws documents (lists of objects / plates, plates of objects with plated children, empty plates);
for each one it emits the transcription of the in-place algorithm (Impl) and the recursive meaning (Req).  The real
function must agree with Impl on every document (binding); every document on which Impl and Req differ is an
observation about the loader outside the twenty listed properties (reported in the evidence, never a verdict).
"""
from __future__ import annotations

import copy
import shutil

from . import tlc
from .common import Ctx, Machinery


def ident(i):
    name, star, suf = i
    return str(name) + "".join(str(x) for x in suf) + ("*" if star else "")


def to_json(item):
    if item["kind"] == "obj":
        return {"id": ident(item["id"]), "type": "Thing", "kids": [to_json(k) for k in item["kids"]]}
    return {"id": "plate", "type": "Plate", "range": f"0:{item['n']}", "object": to_json(item["body"])}


def check(ctx: Ctx, quick: bool):
    from torchtree.core.utils import expand_plates
    d = tlc.workdir("plates")
    t, c = tlc.write_mc(d, "MC_Plates", "Plates", {"MaxItems": "2", "MaxN": "2", "Emit": "TRUE"}, ["SPECIFICATION Spec", "CHECK_DEADLOCK FALSE"])
    res = tlc.run(t, c, workers=1, simulate=f"num={300 if quick else 3000}", depth=3, seed=ctx.seed + 7, tag="plates", timeout=600)
    shutil.rmtree(d, ignore_errors=True)
    docs = [p for p in res.prints if isinstance(p, tuple) and len(p) == 4 and p[0] == "DOC"]
    if not docs:
        raise Machinery("Plates.tla emitted no document")
    seen = set()
    differ, examples = 0, []
    for _, doc, impl, req in docs:
        js = [to_json(x) for x in doc]
        key = repr(js)
        if key in seen:
            continue
        seen.add(key)
        want_impl = [to_json(x) for x in impl]
        want_req = [to_json(x) for x in req]
        real = copy.deepcopy(js)
        try:
            expand_plates(real)
        except Exception as e:
            real = f"{type(e).__name__}: {e}"
        ctx.add("plate_documents_replayed")
        if real != want_impl:
            ctx.note(f"MODEL-DRIFT bind:plates expand_plates differs from Plates.tla Impl on {js}: real {real}, Impl {want_impl}")
            ctx.add("model_drift")
            continue
        if want_impl != want_req:
            differ += 1
            if len(examples) < 3 and len(key) < 420:
                examples.append({"document": js, "expand_plates": real, "recursive_meaning": want_req})
    ctx.cov["plates"] = {"documents": len(seen), "impl_differs_from_recursive_meaning": differ, "examples": examples}
