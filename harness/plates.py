"""Plates.tla <-> core/utils.py:expand_plates.

TLC simulation draws documents (lists of objects / plates, plates of objects with plated children, empty plates);
for each one it emits the transcription of the in-place algorithm (Impl) and the recursive meaning (Req).  The real
function must agree with Impl on every document (binding); every document on which Impl and Req differ is an
observation about the loader outside the twenty listed properties (reported in the evidence, never a verdict).
"""
from __future__ import annotations

import copy
import shutil

from . import tlc
from .common import Ctx, Machinery


def ident(i):
    name, star, suf = i
    return str(name) + "".join(str(x) for x in suf) + ("*" if star else "")


def to_json(item):
    if item["kind"] == "obj":
        return {"id": ident(item["id"]), "type": "Thing", "kids": [to_json(k) for k in item["kids"]]}
    return {"id": "plate", "type": "Plate", "range": f"0:{item['n']}", "object": to_json(item["body"])}


def check(ctx: Ctx, quick: bool):
    from torchtree.core.utils import expand_plates
    d = tlc.workdir("plates")
    t, c = tlc.write_mc(d, "MC_Plates", "Plates", {"MaxItems": "2", "MaxN": "2", "Emit": "TRUE"}, ["SPECIFICATION Spec", "CHECK_DEADLOCK FALSE"])
    res = tlc.run(t, c, workers=1, simulate=f"num={300 if quick else 3000}", depth=3, seed=ctx.seed + 7, tag="plates", timeout=600)
    shutil.rmtree(d, ignore_errors=True)
    docs = [p for p in res.prints if isinstance(p, tuple) and len(p) == 4 and p[0] == "DOC"]
    if not docs:
        raise Machinery("Plates.tla emitted no document")
    seen = set()
    differ, examples = 0, []
    for _, doc, impl, req in docs:
        js = [to_json(x) for x in doc]
        key = repr(js)
        if key in seen:
            continue
        seen.add(key)
        want_impl = [to_json(x) for x in impl]
        want_req = [to_json(x) for x in req]
        real = copy.deepcopy(js)
        try:
            expand_plates(real)
        except Exception as e:
            real = f"{type(e).__name__}: {e}"
        ctx.add("plate_documents_replayed")
        if real != want_impl:
            ctx.note(f"MODEL-DRIFT bind:plates expand_plates differs from Plates.tla Impl on {js}: real {real}, Impl {want_impl}")
            ctx.add("model_drift")
            continue
        if want_impl != want_req:
            differ += 1
            if len(examples) < 3 and len(key) < 420:
                examples.append({"document": js, "expand_plates": real, "recursive_meaning": want_req})
    ctx.cov["plates"] = {"documents": len(seen), "impl_differs_from_recursive_meaning": differ, "examples": examples}


def check_main_pipeline(ctx: Ctx):
    """The program entry point (torchtree.torchtree.main) on a document with an IGNORED plate and an ignored object: nothing they
    define may reach the registry (comments are stripped before plates are expanded), a plain plate is expanded."""
    import contextlib
    import io
    import json
    import os
    import sys
    import torchtree.torchtree as T
    doc = [{"id": "keep", "type": "Parameter", "tensor": [1.0]},
           {"id": "pl", "type": "Plate", "range": "0:2", "ignore": True, "object": {"id": "ghost*", "type": "Parameter", "tensor": [9.0]}},
           {"id": "pl2", "type": "Plate", "range": "0:2", "object": {"id": "real*", "type": "Parameter", "tensor": [2.0]}},
           {"id": "gone", "type": "Parameter", "tensor": [3.0], "ignore": True},
           {"id": "d", "type": "Distribution", "distribution": "torch.distributions.Normal", "x": "keep", "_note": "comment key",
            "parameters": {"loc": {"id": "loc", "type": "Parameter", "tensor": [0.0]}, "scale": {"id": "scale", "type": "Parameter", "tensor": [1.0]}}}]
    wd = tlc.workdir("main")
    path = os.path.join(wd, "doc.json")
    with open(path, "w") as f:
        json.dump(doc, f)
    seen = {}
    orig = T.process_objects

    def spy(element, dic, *a, **k):
        out = orig(element, dic, *a, **k)
        seen.update({str(k_): True for k_ in dic})
        return out
    old_argv = sys.argv
    T.process_objects = spy
    try:
        sys.argv = ["torchtree", path]
        with contextlib.redirect_stdout(io.StringIO()), contextlib.redirect_stderr(io.StringIO()):
            try:
                T.main()
            except SystemExit:
                pass
    finally:
        T.process_objects = orig
        sys.argv = old_argv
        shutil.rmtree(wd, ignore_errors=True)
    ctx.add("evaluations")
    ids = set(seen)
    ghosts = sorted(i for i in ids if i.startswith("ghost") or i == "gone" or i == "pl")
    if ghosts:
        ctx.violation("C13:main:ignored-object-has-effect", f"torchtree's entry point registered {ghosts} although they are defined only by objects marked ignored",
                      {"doc": doc})
    missing = sorted({"keep", "real0", "real1", "d", "loc", "scale"} - ids)
    if missing:
        ctx.violation("C13:main:objects-missing", f"torchtree's entry point did not register {missing} (registered: {sorted(ids)})", {"doc": doc})
