"""C04 - transition probabilities are exp(Qt) of a properly normalised rate matrix.

1. TLC: SubstQ.tla over a lattice of rational parameters (JC69, GeneralJC69, HKY, GTR, general
   symmetric with every mapping on 3 states, general non-symmetric, a small empirical model):
   rows sum to zero, off-diagonals non-negative, unit expected rate, detailed balance and
   stationarity for the reversible models - exact arithmetic.  Every case is emitted with its
   exact normalised Q.
2. The Python transliteration of the spec's Q (oracle_phylo.q_norm) is re-validated on every
   emitted case with exact Fractions.
3. Real models built from JSON: q() normalised vs the exact Q (1e-12); p_t(t) for
   t in {0, 1/16, 1/2, 1, 4, 100} vs expm(Qt) (mpmath, 30 digits; 1e-9); on the implementation's
   own output: rows sum to one, P(0)=I, P(s+t)=P(s)P(t), pi P = pi, detailed balance; batched
   parameters vs per-slice results.  Random parameters outside the lattice (rates 1e-4..1e4,
   skewed frequencies), LG / WAG and MG94 (all genetic codes) go through the transliteration and
   an independent structural definition.
"""
from __future__ import annotations

import itertools
import json
import math
import random
import shutil
from fractions import Fraction

from . import tlc
from . import oracle_phylo as O
from .common import Ctx, Machinery, use_src

LEVEL = "exploration"
TS = [0.0, 1.0 / 16, 0.5, 1.0, 4.0, 100.0]


def rat(x):
    f = Fraction(x).limit_denominator(1000)
    return f"<<{f.numerator}, {f.denominator}>>"


def lattice(tier):
    pis4 = [[Fraction(1, 4)] * 4, [Fraction(1, 10), Fraction(2, 10), Fraction(3, 10), Fraction(4, 10)],
            [Fraction(1, 2), Fraction(1, 4), Fraction(1, 8), Fraction(1, 8)]]
    pis3 = [[Fraction(1, 2), Fraction(1, 3), Fraction(1, 6)], [Fraction(1, 5), Fraction(1, 5), Fraction(3, 5)]]
    kappas = [Fraction(1, 4), Fraction(1), Fraction(3), Fraction(16)]
    gtrs = [[1, 2, 3, 5, 7, 11], [16, 1, Fraction(1, 4), 3, 1, 2], [1, 1, 1, 1, 1, 1]]
    cases = [dict(model="JC69", n=4, pi=pis4[0], rates=[], mapping=[]), dict(model="GENJC", n=3, pi=[Fraction(1, 3)] * 3, rates=[], mapping=[]),
             dict(model="GENJC", n=5, pi=[Fraction(1, 5)] * 5, rates=[], mapping=[])]
    for pi in pis4:
        for k in kappas:
            cases.append(dict(model="HKY", n=4, pi=pi, rates=[k], mapping=[]))
        for g in gtrs:
            cases.append(dict(model="GTR", n=4, pi=pi, rates=[Fraction(x) for x in g], mapping=[]))
    for pi in pis3:
        for mp in itertools.product([0, 1], repeat=3):
            cases.append(dict(model="GENSYM", n=3, pi=pi, rates=[Fraction(2), Fraction(1, 3)], mapping=list(mp)))
        cases.append(dict(model="GENSYM", n=3, pi=pi, rates=[Fraction(1), Fraction(4), Fraction(1, 2)], mapping=[2, 0, 1]))
        for mp in ([0, 1, 2, 3, 4, 5], [5, 4, 3, 2, 1, 0], [0, 0, 1, 1, 2, 2], [0, 1, 0, 1, 0, 1]):
            cases.append(dict(model="GENNONSYM", n=3, pi=pi, rates=[Fraction(x) for x in (1, 2, 3, 5, 7, Fraction(1, 2))], mapping=mp))
        cases.append(dict(model="EMPIRICAL", n=3, pi=pi, rates=[Fraction(3), Fraction(1, 2), Fraction(5)], mapping=[]))
    # HKY written as a general symmetric model on 4 states (mapping 0,1,0,0,1,0)
    for pi in pis4[1:]:
        cases.append(dict(model="GENSYM", n=4, pi=pi, rates=[Fraction(1), Fraction(3)], mapping=[0, 1, 0, 0, 1, 0]))
    return cases


def case_tla(c):
    seq = lambda xs, f: "<<" + ", ".join(f(x) for x in xs) + ">>"
    return (f'[model |-> "{c["model"]}", n |-> {c["n"]}, pi |-> {seq(c["pi"], rat)}, rates |-> {seq(c["rates"], rat)}, '
            f'mapping |-> {seq(c["mapping"], str)}]')


def fr(p):
    return Fraction(p[0], p[1])


# ------------------------------------------------------------------ real models
def P(id_, tensor):
    return {"id": id_, "type": "Parameter", "tensor": tensor}


def model_json(c, pi, rates):
    m, n = c["model"], c["n"]
    if m == "JC69":
        return {"id": "m", "type": "JC69"}
    if m == "GENJC":
        return {"id": "m", "type": "GeneralJC69", "state_count": n}
    if m == "HKY":
        kappa = [[r[0]] for r in rates] if isinstance(rates[0], (list, tuple)) else [rates[0]]
        return {"id": "m", "type": "HKY", "kappa": P("k", kappa), "frequencies": P("f", pi)}
    if m == "GTR":
        return {"id": "m", "type": "GTR", "rates": P("r", rates), "frequencies": P("f", pi)}
    dt = {"id": "dt", "type": "GeneralDataType", "codes": [str(i) for i in range(n)]}
    if m == "GENSYM":
        return {"id": "m", "type": "GeneralSymmetricSubstitutionModel", "data_type": dt, "mapping": list(c["mapping"]),
                "rates": P("r", rates), "frequencies": P("f", pi)}
    if m == "GENNONSYM":
        return {"id": "m", "type": "GeneralNonSymmetricSubstitutionModel", "data_type": dt, "mapping": list(c["mapping"]),
                "rates": P("r", rates), "frequencies": P("f", pi)}
    return None


def build(c, pi, rates):
    import torch
    from torchtree.core.utils import process_object
    js = model_json(c, pi, rates)
    if js is None:   # EMPIRICAL: constructed directly (no JSON form with free rates)
        from torchtree.evolution.substitution_model.general import EmpiricalSubstitutionModel

        class Emp(EmpiricalSubstitutionModel):
            @property
            def rates(self):
                return []
        return Emp("m", torch.tensor(rates), torch.tensor(pi))
    return process_object(js, {})


def real_qnorm(model):
    import torch
    Q = model.q()
    pi = model.frequencies
    nrm = -torch.sum(torch.diagonal(Q, dim1=-2, dim2=-1) * pi, -1)
    return Q / nrm.unsqueeze(-1).unsqueeze(-1)


def maxrel(a, b):
    m = 0.0
    for x, y in zip(a, b):
        for u, v in zip(x, y):
            m = max(m, abs(u - v) / max(1.0, abs(v)))
    return m


def check_model(ctx: Ctx, tag, c, Qref, pi, rates, reversible, key):
    """Compare one real model with the reference Q (nested floats)."""
    import torch
    try:
        model = build(c, pi, rates)
        Qr = real_qnorm(model).tolist()
    except Exception as e:
        ctx.violation(f"C04:{c['model']}:raises", f"{tag}: building / q() raised {type(e).__name__}: {e}", {"case": key})
        return
    ctx.add("evaluations")
    n = c["n"]
    e = maxrel(Qr, Qref)
    if e > 1e-12:
        ctx.violation(f"C04:{c['model']}:q", f"{tag}: normalised q() differs from the specified rate matrix by {e:.3g}: {Qr} vs {Qref}", {"case": key})
        return
    Ps = {}
    for t in TS:
        Pt = model.p_t(torch.tensor([t]))
        Pt = Pt.reshape(-1, n, n)[0]
        Ps[t] = Pt
        ref = O.expm(Qref, t)
        e = maxrel(Pt.tolist(), ref)
        if e > 1e-9 or not torch.isfinite(Pt).all():
            ctx.violation(f"C04:{c['model']}:p_t", f"{tag}: p_t({t}) differs from expm(Qt) by {e:.3g}", {"case": key, "t": t})
            return
        if (Pt.sum(-1) - 1).abs().max() > 1e-9 or Pt.min() < -1e-12:
            ctx.violation(f"C04:{c['model']}:rows", f"{tag}: rows of p_t({t}) are not probability vectors", {"case": key, "t": t})
            return
        pit = torch.tensor([float(x) for x in pi])
        if reversible:
            if (pit @ Pt - pit).abs().max() > 1e-9:
                ctx.violation(f"C04:{c['model']}:stationary", f"{tag}: pi P({t}) != pi", {"case": key, "t": t})
                return
            D = pit.unsqueeze(-1) * Pt
            if (D - D.T).abs().max() > 1e-9:
                ctx.violation(f"C04:{c['model']}:detailed-balance", f"{tag}: detailed balance fails for P({t})", {"case": key, "t": t})
                return
    if (Ps[0.0] - torch.eye(n)).abs().max() > 1e-12:
        ctx.violation(f"C04:{c['model']}:identity", f"{tag}: P(0) is not the identity", {"case": key})
    if (Ps[0.5] @ Ps[0.5] - Ps[1.0]).abs().max() > 1e-9:
        ctx.violation(f"C04:{c['model']}:semigroup", f"{tag}: P(1/2)P(1/2) != P(1)", {"case": key})
    # several branch lengths / categories at once vs one at a time
    bl = torch.tensor([[0.1, 0.7], [1.3, 2.0], [0.0, 5.0]])
    Pm = model.p_t(bl)
    for i in range(3):
        for j in range(2):
            single = model.p_t(bl[i, j].reshape(1)).reshape(-1, n, n)[0]
            if (Pm[i, j] - single).abs().max() > 1e-12:
                ctx.violation(f"C04:{c['model']}:batched-branches", f"{tag}: p_t of a [3,2] tensor differs from element-wise evaluation", {"case": key})
                return


def check_batched_params(ctx: Ctx, group):
    """Stack parameter sets of the same model/shape along a leading dimension; compare with slices."""
    import torch
    from torchtree.core.utils import process_object
    c0 = group[0][0]
    if c0["model"] in ("JC69", "GENJC", "EMPIRICAL") or len(group) < 2:
        return
    pis = [[float(x) for x in g[1]] for g in group]
    rts = [[float(x) for x in g[2]] for g in group]
    js = model_json(c0, pis, rts)
    try:
        model = process_object(js, {})
        bl = torch.tensor([[0.3], [1.1]]).expand(len(group), 2, 1)     # [B, branches, categories] as in TreeLikelihoodModel
        Pb = model.p_t(bl)
    except Exception as e:
        ctx.add("batched_raised")
        ctx.cov.setdefault("batched_raised_samples", []).append(f"{c0['model']}: {type(e).__name__}: {str(e)[:80]}")
        return
    ctx.add("evaluations")
    n = c0["n"]
    for b, (c, pi, rates, key) in enumerate(group):
        single = build(c, [float(x) for x in pi], [float(x) for x in rates]).p_t(torch.tensor([[0.3], [1.1]]))
        if Pb.shape[0] != len(group) or (Pb[b].reshape(-1, n, n) - single.reshape(-1, n, n)).abs().max() > 1e-10:
            ctx.violation(f"C04:{c['model']}:batched-parameters", f"batched parameters [B={len(group)}]: slice {b} of p_t differs from the un-batched model",
                          {"case": key})
            return


def check_batched_rates_only(ctx: Ctx, group):
    """Only the rate parameters carry a leading dimension; the frequencies are one fixed vector (the SYM-like set-up)."""
    import torch
    from torchtree.core.utils import process_object
    c0 = group[0][0]
    if c0["model"] in ("JC69", "GENJC", "EMPIRICAL") or len(group) < 2:
        return
    pi0 = [float(x) for x in group[0][1]]
    rts = [[float(x) for x in g[2]] for g in group]
    if not rts[0]:
        return
    js = model_json(c0, pi0, rts)
    try:
        model = process_object(js, {})
        bl = torch.tensor([[0.3], [1.1]]).expand(len(group), 2, 1)
        Pb = model.p_t(bl)
    except Exception as e:
        ctx.add("batched_raised")
        ctx.cov.setdefault("batched_raised_samples", []).append(f"{c0['model']} (rates only): {type(e).__name__}: {str(e)[:80]}")
        return
    ctx.add("evaluations")
    n = c0["n"]
    for b, (c, pi, rates, key) in enumerate(group):
        single = build(c0, pi0, [float(x) for x in rates]).p_t(torch.tensor([[0.3], [1.1]]))
        if Pb.shape[0] != len(group) or (Pb[b].reshape(-1, n, n) - single.reshape(-1, n, n)).abs().max() > 1e-10:
            ctx.violation(f"C04:{c0['model']}:batched-rates-fixed-frequencies", f"rates batched [B={len(group)}] with one frequency vector: slice {b} of p_t differs from the "
                          "un-batched model", {"case": key})
            return


def check_history(ctx: Ctx, group):
    """One live model object taken through the group's parameter sets by assignment through the
    public parameter interface; after every update p_t must be exp(Qt) of the *current* Q."""
    import torch
    c0 = group[0][0]
    if c0["model"] in ("JC69", "GENJC", "EMPIRICAL") or len(group) < 2:
        return
    c, pi, rates, key = group[0]
    model = build(c, [float(x) for x in pi], [float(x) for x in rates])
    model.p_t(torch.tensor([0.5]))
    n = c["n"]
    for step, (c, pi, rates, key) in enumerate(group[1:] + group[:1]):
        fp = next((p for name, p in model._parameters.items() if "freq" in name), None)
        rp = next((p for name, p in model._parameters.items() if "freq" not in name and "mapping" not in name), None)
        if fp is None or rp is None:
            return
        if step % 2 == 0:
            fp.tensor = torch.tensor([float(x) for x in pi])
            rp.tensor = torch.tensor([float(x) for x in rates])
        else:
            rp.tensor = torch.tensor([float(x) for x in rates])
            fp.tensor = torch.tensor([float(x) for x in pi])
        ctx.add("evaluations")
        Qref = O.q_norm(c["model"], n, [float(x) for x in pi], [float(x) for x in rates], c["mapping"])
        for t in (0.5, 2.0):
            Pt = model.p_t(torch.tensor([t])).reshape(-1, n, n)[0]
            e = maxrel(Pt.tolist(), O.expm(Qref, t))
            if e > 1e-9:
                ctx.violation(f"C04:{c['model']}:p_t-after-update",
                              f"{c['model']}: after assigning new parameters to a live model (update {step + 1}), p_t({t}) differs from expm(Qt) "
                              f"of the current rate matrix by {e:.3g}", {"case": key, "step": step})
                return


def near_defective(rnd):
    """A 3-state non-reversible rate matrix with all rates positive whose two non-zero eigenvalues
    (nearly) coincide without the matrix being diagonalisable: bisection on the discriminant."""
    def disc(Q):
        tr = Q[0][0] + Q[1][1] + Q[2][2]
        m2 = (Q[0][0] * Q[1][1] - Q[0][1] * Q[1][0]) + (Q[0][0] * Q[2][2] - Q[0][2] * Q[2][0]) + (Q[1][1] * Q[2][2] - Q[1][2] * Q[2][1])
        return tr * tr - 4 * m2

    def mk(off):
        Q = [[0.0] * 3 for _ in range(3)]
        for (i, j), v in off.items():
            Q[i][j] = v
        for i in range(3):
            Q[i][i] = -sum(Q[i])
        return Q
    a = {(0, 1): 1 + rnd.random(), (1, 2): 1 + rnd.random(), (2, 0): 1 + rnd.random(),
         (1, 0): 0.05 + 0.1 * rnd.random(), (2, 1): 0.05 + 0.1 * rnd.random(), (0, 2): 0.05 + 0.1 * rnd.random()}
    b = {(0, 1): 0.3, (1, 0): 0.3, (1, 2): 2.0 + rnd.random(), (2, 1): 2.0 + rnd.random(), (0, 2): 0.2, (2, 0): 0.2}
    lo, hi = 0.0, 1.0
    mix = lambda s: {k: (1 - s) * a[k] + s * b[k] for k in a}
    if not (disc(mk(mix(lo))) < 0 < disc(mk(mix(hi)))):
        return None
    for _ in range(200):
        mid = (lo + hi) / 2
        if disc(mk(mix(mid))) < 0:
            lo = mid
        else:
            hi = mid
    off = mix(hi)
    # as a general non-symmetric model with uniform frequencies: rate r_ij = Q_ij / pi_j
    upper = [off[(0, 1)], off[(0, 2)], off[(1, 2)]]
    lower = [off[(1, 0)], off[(2, 0)], off[(2, 1)]]
    return [3 * x for x in upper + lower], list(range(6))


# ------------------------------------------------------------------ MG94 and empirical models
def mg94_reference(dt, alpha, beta, kappa, pi):
    """Independent structural definition: codons differing at exactly one position; transition vs
    transversion; synonymous vs non-synonymous under the code table; stop codons removed."""
    trip = [t for t in dt.triplets[:64]]
    order = "ACGT"
    idx = lambda cod: order.index(cod[0]) * 16 + order.index(cod[1]) * 4 + order.index(cod[2])
    coding = [t for t in trip if dt.table[idx(t)] != "*"]
    n = len(coding)
    purines = {"A", "G"}
    R = [[0.0] * n for _ in range(n)]
    for i, a in enumerate(coding):
        for j, b in enumerate(coding):
            if i == j:
                continue
            diff = [k for k in range(3) if a[k] != b[k]]
            r = 1.0
            if len(diff) == 1:
                x, y = a[diff[0]], b[diff[0]]
                if (x in purines) == (y in purines):
                    r *= kappa
                r *= alpha if dt.table[idx(a)] == dt.table[idx(b)] else beta
            R[i][j] = r
    Q = [[R[i][j] * pi[j] if i != j else 0.0 for j in range(n)] for i in range(n)]
    for i in range(n):
        Q[i][i] = -sum(Q[i])
    nrm = -sum(pi[i] * Q[i][i] for i in range(n))
    return [[Q[i][j] / nrm for j in range(n)] for i in range(n)], coding


def check_codon_and_empirical(ctx: Ctx, tier):
    import numpy as np
    import torch
    from torchtree.evolution.datatype import CodonDataType
    from torchtree.evolution.substitution_model.amino_acid import LG, WAG
    from torchtree.evolution.substitution_model.codon import MG94
    from torchtree.core.parameter import Parameter
    rnd = random.Random(5)
    codes = list(CodonDataType.GENETIC_CODE_NAMES)
    if tier == "quick":
        codes = [codes[0], codes[1], codes[6], codes[14]]
    for name in codes:
        dt = CodonDataType("dt", name)
        n = dt.state_count
        w = [rnd.uniform(0.2, 3.0) for _ in range(n)]
        pi = [x / sum(w) for x in w]
        a, b, k = 1.3, 0.4, 2.5
        ctx.add("evaluations")
        ctx.distinct(("MG94", name))
        try:
            m = MG94("m", dt, Parameter("a", torch.tensor([a])), Parameter("b", torch.tensor([b])), Parameter("k", torch.tensor([k])),
                     Parameter("f", torch.tensor(pi)))
            Qr = real_qnorm(m).reshape(n, n)
        except Exception as e:
            ctx.violation(f"C04:MG94:raises", f"MG94 ({name}) raised {type(e).__name__}: {e}", {"code": name})
            continue
        Qref, coding = mg94_reference(dt, a, b, k, pi)
        if list(dt.states) != coding:
            ctx.violation("C04:MG94:states", f"MG94 ({name}): coding codons {list(dt.states)[:5]}.. differ from the table's sense codons", {"code": name})
            continue
        e = float((Qr - torch.tensor(Qref)).abs().max())
        if e > 1e-12:
            ctx.violation("C04:MG94:q", f"MG94 ({name}): normalised q() differs from the structural definition by {e:.3g}", {"code": name})
            continue
        for t in (0.0, 0.3, 2.0):
            Pt = m.p_t(torch.tensor([t])).reshape(n, n)
            ref = torch.tensor(O.expm_np(Qref, t))
            if (Pt - ref).abs().max() > 1e-9:
                ctx.violation("C04:MG94:p_t", f"MG94 ({name}): p_t({t}) differs from expm(Qt) by {float((Pt - ref).abs().max()):.3g}", {"code": name})
                break
    for cls in (LG, WAG):
        m = cls("m")
        n = 20
        pi = m.frequencies.tolist()
        rates = m._rates.tolist()
        Qref = O.q_norm("EMPIRICAL", n, pi, rates)
        ctx.add("evaluations")
        ctx.distinct((cls.__name__,))
        e = float((real_qnorm(m) - torch.tensor(Qref)).abs().max())
        if e > 1e-12:
            ctx.violation(f"C04:{cls.__name__}:q", f"{cls.__name__}: q() differs from exchangeabilities x frequencies by {e:.3g}", {})
        if abs(sum(pi) - 1.0) > 1e-4:
            ctx.violation(f"C04:{cls.__name__}:frequencies", f"{cls.__name__}: frequencies sum to {sum(pi)}", {})
        for t in (0.0, 0.1, 1.0, 10.0):
            Pt = m.p_t(torch.tensor([t])).reshape(n, n)
            ref = torch.tensor(O.expm_np(Qref, t), dtype=Pt.dtype)
            if (Pt - ref).abs().max() > (1e-9 if Pt.dtype == torch.float64 else 1e-5):
                ctx.violation(f"C04:{cls.__name__}:p_t", f"{cls.__name__}: p_t({t}) differs from expm(Qt) by {float((Pt - ref).abs().max()):.3g}", {})
                break
        # history: the model is moved (cpu(), to(dtype)) and evaluated again - the same normalised generator
        for move in ("cpu", "to"):
            try:
                getattr(m, move)(*(() if move == "cpu" else (torch.float64,)))
            except Exception:
                continue
            Pt = m.p_t(torch.tensor([1.0])).reshape(n, n)
            ref = torch.tensor(O.expm_np(Qref, 1.0), dtype=Pt.dtype)
            ctx.add("evaluations")
            if (Pt - ref).abs().max() > (1e-9 if Pt.dtype == torch.float64 else 1e-5):
                ctx.violation(f"C04:{cls.__name__}:p_t-after-{move}", f"{cls.__name__}: after {move}() p_t(1) differs from expm(Q) of the normalised generator by "
                              f"{float((Pt - ref).abs().max()):.3g}", {})
                break


def run(ctx: Ctx):
    use_src()
    import torch
    cases = lattice(ctx.tier)
    d = tlc.workdir("c04")
    t, c = tlc.write_mc(d, "MC_SubstQ", "SubstQ", {"Cases": "{" + ",\n ".join(case_tla(x) for x in cases) + "}", "Emit": "TRUE"},
                        ["SPECIFICATION Spec", "INVARIANT Valid"])
    res = tlc.run(t, c, workers=1, tag="c04", timeout=900)
    shutil.rmtree(d, ignore_errors=True)
    ctx.tlc(res, f"SubstQ: {len(cases)} lattice cases")
    if res.violations:
        raise Machinery(f"SubstQ.Valid violated on the lattice (spec error): {res.violations[0].trace[-1][1].get('case')}")
    emitted = res.emitted("CASE")
    if len(emitted) != len(cases):
        raise Machinery(f"emission incomplete: {len(emitted)} of {len(cases)}")
    groups = {}
    for em in emitted:
        c = em["case"]
        pi = [fr(p) for p in c["pi"]]
        rates = [fr(p) for p in c["rates"]]
        Qx = [[fr(x) for x in row] for row in em["q"]]
        # self-check of the transliteration, exact
        if O.q_norm(c["model"], c["n"], pi, rates, c["mapping"]) != Qx:
            raise Machinery(f"oracle_phylo.q_norm disagrees with SubstQ.tla on {c}")
        ctx.add("oracle_self_checks")
        key = json.dumps(c)
        ctx.distinct(key)
        Qf = [[float(x) for x in row] for row in Qx]
        check_model(ctx, f"{c['model']} pi={[str(x) for x in pi]} rates={[str(x) for x in rates]} mapping={c['mapping']}", c, Qf,
                    [float(x) for x in pi], [float(x) for x in rates], c["model"] != "GENNONSYM", key)
        groups.setdefault((c["model"], c["n"], tuple(c["mapping"])), []).append((c, pi, rates, key))
    for g in groups.values():
        check_batched_params(ctx, g)
        check_batched_rates_only(ctx, g)
        check_history(ctx, g)
    ctx.sample({"case": emitted[7]["case"], "q": emitted[7]["q"]}, limit=2)
    # random parameters outside the lattice, through the validated transliteration
    rnd = random.Random(ctx.seed + 4)
    nrand = 40 if ctx.tier == "quick" else 400
    for k in range(nrand):
        m = rnd.choice(["HKY", "GTR", "GENSYM", "GENNONSYM"])
        n = 4 if m in ("HKY", "GTR") else rnd.choice([3, 4, 5])
        w = [math.exp(rnd.uniform(-3.5, 0)) for _ in range(n)]
        pi = [x / sum(w) for x in w]
        ncell = n * (n - 1) // 2
        if m == "HKY":
            rates, mapping = [10 ** rnd.uniform(-4, 4)], []
        elif m == "GTR":
            rates, mapping = [10 ** rnd.uniform(-4, 4) for _ in range(6)], []
        elif m == "GENSYM":
            nr = rnd.randint(1, ncell)
            rates, mapping = [10 ** rnd.uniform(-3, 3) for _ in range(nr)], [rnd.randrange(nr) for _ in range(ncell)]
        else:
            nr = rnd.randint(2, 2 * ncell)
            rates, mapping = [10 ** rnd.uniform(-2, 2) for _ in range(nr)], [rnd.randrange(nr) for _ in range(2 * ncell)]
        c = dict(model=m, n=n, mapping=mapping)
        Qref = O.q_norm(m, n, pi, rates, mapping)
        key = json.dumps([m, n, pi, rates, mapping])
        ctx.distinct(key)
        check_model(ctx, f"random {m} n={n} pi={pi} rates={rates} mapping={mapping}", c, Qref, pi, rates, m != "GENNONSYM", key)
    for k in range(6 if ctx.tier == "quick" else 40):
        nd = near_defective(rnd)
        if nd is None:
            continue
        rates, mapping = nd
        pi = [1 / 3] * 3
        c = dict(model="GENNONSYM", n=3, mapping=mapping)
        key = json.dumps(["near-defective", rates])
        ctx.distinct(key)
        check_model(ctx, f"near-defective GENNONSYM rates={rates}", c, O.q_norm("GENNONSYM", 3, pi, rates, mapping), pi, rates, False, key)
    check_codon_and_empirical(ctx, ctx.tier)
    ctx.cov["rule"] = ("lattice cases emitted by TLC (exact Q) + random parameter sets (rates 1e-4..1e4, skewed frequencies) + MG94 per genetic code + LG/WAG; "
                       "each compared at 6 branch lengths; distinct = parameter set")
    ctx.assumptions += ["reference exp(Qt): mpmath expm at 30 digits (scaling-and-squaring Taylor in numpy for 20- and 61-state matrices)",
                        "MG94 genetic code tables are taken from datatype.py; the structural rule (one-position difference, ts/tv, syn/non-syn) is independent"]
