"""Python transliterations of spec operators (SubstQ.tla, SiteModel.tla, Pruning.tla), used for
parameter values outside TLC's lattice.  Each is re-validated against TLC-emitted cases by the
check that uses it (a disagreement is a machinery failure)."""
from __future__ import annotations

import itertools
import math
from fractions import Fraction

import mpmath

mpmath.mp.dps = 30


# ------------------------------------------------------------------ SubstQ.tla
def up_idx(n, i, j):
    """1-based index of cell (i,j), i<j (1-based), row-major over the upper triangle."""
    return (i - 1) * n - ((i - 1) * i) // 2 + (j - i)


def exch(model, n, rates, mapping, i, j):
    a, b = (i, j) if i < j else (j, i)
    k = up_idx(n, a, b)
    half = n * (n - 1) // 2
    if model in ("JC69", "GENJC"):
        return 1
    if model == "HKY":
        return rates[0] if (a, b) in ((1, 3), (2, 4)) else 1
    if model in ("GTR", "EMPIRICAL"):
        return rates[k - 1]
    if model == "GENSYM":
        return rates[mapping[k - 1]]
    if model == "GENNONSYM":
        return rates[mapping[k - 1]] if i < j else rates[mapping[half + k - 1]]
    raise ValueError(model)


def q_norm(model, n, pi, rates=(), mapping=()):
    """Normalised rate matrix (list of lists), generic over the number type of the inputs."""
    Q = [[None] * n for _ in range(n)]
    for i in range(1, n + 1):
        row = 0
        for j in range(1, n + 1):
            if i != j:
                Q[i - 1][j - 1] = exch(model, n, rates, mapping, i, j) * pi[j - 1]
                row = row + Q[i - 1][j - 1]
        Q[i - 1][i - 1] = -row
    nrm = -sum(pi[i] * Q[i][i] for i in range(n))
    return [[Q[i][j] / nrm for j in range(n)] for i in range(n)]


def expm(Q, t):
    """exp(Q t) as nested lists of floats (mpmath, 30 digits)."""
    n = len(Q)
    M = mpmath.matrix(n, n)
    for i in range(n):
        for j in range(n):
            M[i, j] = mpmath.mpf(float(Q[i][j]) if not isinstance(Q[i][j], Fraction) else mpmath.mpf(Q[i][j].numerator) / Q[i][j].denominator) * t
    E = mpmath.expm(M)
    return [[float(E[i, j]) for j in range(n)] for i in range(n)]


def expm_np(Q, t):
    """exp(Q t) with numpy (scaling and squaring + Taylor) for large matrices."""
    import numpy as np
    A = np.array(Q, dtype=np.float64) * t
    nrm = np.linalg.norm(A, 1)
    s = max(0, int(math.ceil(math.log2(max(nrm, 1e-300)))) + 6)
    A = A / (2 ** s)
    E = np.eye(A.shape[0])
    term = np.eye(A.shape[0])
    for k in range(1, 30):
        term = term @ A / k
        E = E + term
    for _ in range(s):
        E = E @ E
    return E


# ------------------------------------------------------------------ SiteModel.tla
def weibull_quantile(u, shape):
    return (-math.log(1.0 - u)) ** (1.0 / shape)


def site_model(kind, K=1, shape=None, pinv=None, mu=None):
    """(rates, probabilities) of the documented discretisation."""
    if kind == "constant":
        return [mu if mu is not None else 1.0], [1.0]
    if kind == "invariant":
        r = [0.0, 1.0 / (1.0 - pinv)]
        p = [pinv, 1.0 - pinv]
    else:
        q = [weibull_quantile((2 * k + 1) / (2.0 * K), shape) for k in range(K)]
        if pinv is None:
            p = [1.0 / K] * K
            r = q
        else:
            p = [pinv] + [(1.0 - pinv) / K] * K
            r = [0.0] + q
        mean = sum(a * b for a, b in zip(r, p))
        r = [x / mean for x in r]
    if mu is not None:
        r = [x * mu for x in r]
    return r, p


# ------------------------------------------------------------------ Pruning.tla
def postorder_triples(tree, ntips):
    """tree: nested tuples with leaf = int index (0-based leaf index).  Returns (triples, root index)
    with internal indices ntips.. in post-order (transliteration of Trees/Index)."""
    triples = []
    nxt = [ntips]

    def rec(t):
        if isinstance(t, int):
            return t
        l = rec(t[0])
        r = rec(t[1])
        me = nxt[0]
        nxt[0] += 1
        triples.append((me, l, r))
        return me
    root = rec(tree)
    return triples, root


def marginal(triples, root, ntips, tip_sets, mats, freqs, props, nstates):
    """Sum over all assignments of states to internal nodes and all categories (definition).
    mats[k][branch][i][j]; tip_sets[leaf] = set of compatible states; returns the site likelihood."""
    internals = [t[0] for t in triples]
    total = 0
    for k, w in enumerate(props):
        for assign in itertools.product(range(nstates), repeat=len(internals)):
            st = dict(zip(internals, assign))
            p = freqs[st[root]]
            for node, l, r in triples:
                for c in (l, r):
                    if c < ntips:
                        p = p * sum(mats[k][c][st[node]][j] for j in tip_sets[c])
                    else:
                        p = p * mats[k][c][st[node]][st[c]]
                if p == 0:
                    break
            total = total + w * p
    return total


def pruning(triples, root, ntips, tip_sets, mats, freqs, props, nstates):
    """Felsenstein recursion (same value as marginal, linear time) for larger trees."""
    total = 0
    for k, w in enumerate(props):
        part = {}
        for c in range(ntips):
            part[c] = [1 if j in tip_sets[c] else 0 for j in range(nstates)]
        for node, l, r in triples:
            v = []
            for i in range(nstates):
                a = sum(mats[k][l][i][j] * part[l][j] for j in range(nstates))
                b = sum(mats[k][r][i][j] * part[r][j] for j in range(nstates))
                v.append(a * b)
            part[node] = v
        total = total + w * sum(freqs[i] * part[root][i] for i in range(nstates))
    return total
