"""C19 support: run one torchtree-cli option combination end to end and judge it.

run_config(opts) -> Result with
  stage reached: "rejected" (argparse / check_arguments refuse), "emit" (CLI crashed), "load" (torchtree refuses the
  JSON), "evaluate", "ok"; the abstraction of the emitted document handed to CliConfig.tla; numeric verdicts.
"""
from __future__ import annotations

import contextlib
import copy
import io
import json
import math
import os
import sys

from . import zoo

FIX = zoo.FIX

# option -> argv fragment
FIXTURES = {
    "nuc-dated": dict(i="t4.fa", t="t4.nwk", dated=True), "nuc-undated": dict(i="t4.fa", t="t4.nwk", dated=False),
    "nuc6-dated": dict(i="t6.fa", t="t6.nwk", dated=True), "codon-dated": dict(i="t4c.fa", t="t4.nwk", dated=True),
    "codon-undated": dict(i="t4c.fa", t="t4.nwk", dated=False), "aa-undated": dict(i="t4aa.fa", t="t4.nwk", dated=False),
    "aa-dated": dict(i="t4aa.fa", t="t4.nwk", dated=True),
}


def argv_of(o: dict) -> list[str]:
    fx = FIXTURES[o["fixture"]]
    a = [o["cmd"], "-i", os.path.join(FIX, fx["i"]), "-t", os.path.join(FIX, fx["t"])]
    if fx["dated"] and o.get("dates") != "0":
        a += ["--date_regex", r"_(\d+)$"]
    if o.get("dates") == "0":
        a += ["--dates", "0"]
    a += ["-m", o.get("model", "JC69")]
    if o.get("categories", 1) != 1:
        a += ["-C", str(o["categories"])]
    if o.get("invariant"):
        a += ["-I"]
    for k, flag in (("clock", "--clock"), ("heights", "--heights"), ("coalescent", "--coalescent"), ("birth_death", "--birth-death"),
                    ("grid", "--grid"), ("cutoff", "--cutoff"), ("brlenspr", "--brlenspr"), ("clockpr", "--clockpr"), ("frequencies", "-f"), ("rate", "--rate"),
                    ("rate_init", "--rate_init"), ("root_height_init", "--root_height_init"), ("brlens_init", "--brlens_init"),
                    ("heights_init", "--heights_init"), ("coalescent_init", "--coalescent_init"), ("coalescent_integrated", "--coalescent_integrated"),
                    ("coalescent_temperature", "--coalescent_temperature"), ("variational", "-q"), ("distribution", "--distribution"),
                    ("divergence", "--divergence"), ("grad_samples", "--grad_samples"), ("K_grad_samples", "--K_grad_samples"),
                    ("elbo_samples", "--elbo_samples"), ("K_elbo_samples", "--K_elbo_samples"), ("samples", "--samples"), ("iter", "--iter"),
                    ("mass_matrix", "--mass_matrix"), ("adapt_step_size", "--adapt_step_size"), ("warmup", "--warmup"), ("join", "--join"),
                    ("init_fullrank", "--init_fullrank"), ("genetic_code", "--genetic_code")):
        if o.get(k) is not None:
            v = o[k]
            a += [flag] + (list(map(str, v)) if isinstance(v, (list, tuple)) else [str(v)])
    for k, flag in (("gmrf_integrated", "--gmrf_integrated"), ("non_centered", "--coalescent_non_centered"), ("keep", "--keep"),
                    ("use_tip_states", "--use_tip_states"), ("use_ambiguities", "--use_ambiguities"), ("include_jacobian", "--include_jacobian"),
                    ("disable_time_aware", "--disable_time_aware"), ("disable_gmrf_rescaling", "--disable_gmrf_rescaling"), ("entropy", "--entropy"),
                    ("adapt_mass_matrix", "--adapt_mass_matrix"), ("split", "--split"), ("checkpoint_all", "--checkpoint_all")):
        if o.get(k):
            a += [flag]
    if o["cmd"] in ("map", "mcmc", "hmc") or o.get("stem"):
        a += ["--stem", "out"]
    return a


class Result:
    def __init__(self, opts):
        self.opts = opts
        self.stage = None
        self.error = None
        self.doc = None
        self.abs = None          # abstraction for CliConfig.tla
        self.problems = []       # (kind, text)
        self.info = {}


def run_cli(argv):
    from torchtree.cli import cli
    old = sys.argv
    out, err = io.StringIO(), io.StringIO()
    try:
        sys.argv = ["torchtree-cli"] + list(argv)
        with contextlib.redirect_stdout(out), contextlib.redirect_stderr(err):
            try:
                cli.main()
            except SystemExit as e:
                if e.code not in (0, None):
                    return None, ("rejected", err.getvalue().strip().splitlines()[-1][:200] if err.getvalue().strip() else f"exit {e.code}")
    except Exception as e:
        import traceback
        tb = traceback.extract_tb(e.__traceback__)
        where = next((f"{os.path.basename(f.filename)}:{f.name}" for f in reversed(tb) if "/torchtree/" in f.filename), "?")
        return None, ("emit", f"{type(e).__name__}: {str(e)[:120]} at {where}")
    finally:
        sys.argv = old
    try:
        return json.loads(out.getvalue()), None
    except ValueError as e:
        return None, ("emit", f"stdout is not JSON: {e}")


# ------------------------------------------------------------------ abstraction of the emitted document
def abstract(doc):
    """Document-order object list with the ids each object defines (nested) and the ids it references by name."""
    ids_all = set()

    def collect(o):
        if isinstance(o, dict):
            if "id" in o and "type" in o:
                ids_all.add(o["id"])
            for v in o.values():
                collect(v)
        elif isinstance(o, list):
            for v in o:
                collect(v)
    collect(doc)
    events = []      # ("def", id, type) / ("ref", id) in the order the loader meets them

    def walk(o, key=None):
        if isinstance(o, dict):
            if "id" in o and "type" in o:
                events.append(("def", o["id"], o["type"]))
            for k, v in o.items():
                if k in ("id", "type"):
                    continue
                walk(v, k)
        elif isinstance(o, list):
            for v in o:
                walk(v, key)
        elif isinstance(o, str):
            if o in ids_all and key not in ("file_name", "newick", "sequence", "taxon", "datatype_name", "lr_lambda", "distribution", "transform",
                                            "algorithm", "scheduler", "checkpoint"):
                events.append(("ref", o, key))
    walk(doc)
    return events, ids_all


def transformed(doc):
    """id -> (transform name, x ids, zero_jacobian?) for every TransformedParameter in the document."""
    out = {}

    def walk(o):
        if isinstance(o, dict):
            if o.get("type") == "TransformedParameter":
                x = o.get("x")
                xs = []
                for e in (x if isinstance(x, list) else [x]):
                    xs.append(e if isinstance(e, str) else e.get("id"))
                tr = o.get("transform", "")
                zero = (tr.endswith("AffineTransform") and o.get("parameters", {}).get("scale") == 1.0) or tr.endswith("CumSumTransform")
                out[o["id"]] = {"transform": tr.split(".")[-1], "x": xs, "zero": bool(zero)}
            for v in o.values():
                walk(v)
        elif isinstance(o, list):
            for v in o:
                walk(v)
    walk(doc)
    return out


# ------------------------------------------------------------------ loading and numeric checks
def leaf_models(m):
    from torchtree.distributions.joint_distribution import JointDistributionModel
    if isinstance(m, JointDistributionModel):
        out = []
        for c in m._distributions.callables():
            out.extend(leaf_models(c))
        return out
    return [m]


def prior_arguments(dic, target):
    """[(label, tensor thunk)] - the arguments on which prior densities are placed (see DESIGN 4/C19)."""
    import torch
    from torchtree.core.parameter import TransformedParameter
    from torchtree.distributions.distributions import Distribution
    from torchtree.evolution.tree_likelihood import TreeLikelihoodModel
    args = []
    seen = set()
    for m in leaf_models(target):
        if id(m) in seen:
            continue
        seen.add(id(m))
        name = type(m).__name__
        if isinstance(m, (TreeLikelihoodModel, TransformedParameter)) or name in ("PoissonTreeLikelihood",):
            continue
        if isinstance(m, Distribution):
            simplex = m.dist is torch.distributions.Dirichlet
            args.append((f"{m.id}.x", (lambda mm=m, s=simplex: mm.x.tensor[..., :-1] if s else mm.x.tensor)))
        elif name.startswith("GMRF"):
            args.append((f"{m.id}.field", (lambda mm=m: mm.field.tensor)))
        elif name == "CompoundGammaDirichletPrior":
            args.append((f"{m.id}.blens", (lambda mm=m: mm.tree_model.branch_lengths())))
        elif "Coalescent" in name or name in ("BDSKModel", "BirthDeathModel", "ConstantCoalescentIntegratedModel"):
            args.append((f"{m.id}.heights", (lambda t=m.tree_model: t.node_heights[..., t.taxa_count:])))
        elif name in ("CTMCScale", "ScaleMixtureNormal", "BayesianBridge", "MultivariateNormal", "DeterministicNormal"):
            args.append((f"{m.id}.x", (lambda mm=m: mm.x.tensor)))
        else:
            args.append((f"{m.id}.?({name})", None))
    return args


def target_and_raw(doc, dic, cmd):
    """(callable target handed to the sampler / optimiser, [raw parameter objects], constrained joint)."""
    if cmd in ("hmc", "mcmc"):
        node = zoo.find(doc, cmd)
        target = dic[node["joint"]]
        ids = []
        extra = []
        for op in node["operators"]:
            if op.get("type") == "GMRFPiecewiseCoalescentBlockUpdatingOperator":
                extra.append(dic[op["gmrf"]].field)      # the block operator proposes the field of the GMRF
            ps = op.get("parameters", op.get("x"))
            for q in ([ps] if isinstance(ps, (str, dict)) else ps or []):
                q = q if isinstance(q, str) else q["id"]
                if q not in ids:
                    ids.append(q)
        raws = [dic[i] for i in ids]
        for p in extra:
            if all(p is not r for r in raws):
                raws.append(p)
        return target, raws, dic["joint"]
    if cmd == "map":
        node = zoo.find(doc, "bfgs")
        return dic[node["loss"]], [dic[i] for i in node["parameters"]], dic["joint"]
    if cmd == "advi":
        elbo = dic.get("elbo")
        if elbo is None:
            return None, [], dic["joint"]
        raws = []

        def flat(x):
            from torchtree.core.parameter import CatParameter
            if isinstance(x, CatParameter):
                out = []
                for p in x._parameter_container.params():
                    out.extend(flat(p))
                return out
            return [x]
        for q in leaf_models(elbo.q):
            if not hasattr(q, "x"):
                continue
            for p in flat(q.x):
                if all(p is not r for r in raws):
                    raws.append(p)
        return elbo.p, raws, dic["joint"]
    raise ValueError(cmd)


def jacobian_rule(target, joint, raws, args, jac_terms):
    """target(u) - joint(u) against log|det d(prior arguments)/du| by autograd.

    Raw coordinates on which no prior argument depends carry no prior: the density over them is a convention (flat on
    the constrained or on the unconstrained scale), so any subset of the Jacobian terms that depend only on such
    coordinates may be included.  Returns (got, [acceptable values], note)."""
    import itertools
    import torch
    sizes = [r.tensor.numel() for r in raws]
    u0 = torch.cat([r.tensor.detach().reshape(-1) for r in raws])

    def set_u(u):
        o = 0
        for r, n in zip(raws, sizes):
            r.tensor = u[o:o + n].reshape(r.tensor.shape)
            o += n

    def X(u):
        set_u(u)
        return torch.cat([th().reshape(-1) for _, th in args])
    jacobian_rule.noprior = []
    if any(th is None for _, th in args):
        return None, None, "a prior component without a recognisable argument: " + ", ".join(l for l, th in args if th is None)
    J = torch.autograd.functional.jacobian(X, u0)
    set_u(u0)
    unused = [j for j in range(J.shape[1]) if float(J[:, j].abs().max()) == 0.0]
    used = [j for j in range(J.shape[1]) if j not in unused]
    Jc = J[:, used]
    if Jc.shape[0] != Jc.shape[1]:
        return None, None, f"prior arguments {[l for l, _ in args]} have {Jc.shape[0]} coordinates, the raw parameters they depend on {Jc.shape[1]}"
    sign, logdet = torch.linalg.slogdet(Jc)
    if float(sign) == 0.0:
        return None, None, "the map raw -> prior arguments is singular at the initial point"
    # Jacobian terms supported only by coordinates without prior
    free = []
    if unused:
        for tid, term in jac_terms:
            def T(u, term=term):
                set_u(u)
                return term().sum().reshape(1)
            g = torch.autograd.functional.jacobian(T, u0).reshape(-1)
            set_u(u0)
            dep = [j for j in range(len(g)) if float(g[j].abs()) != 0.0]
            with torch.no_grad():
                val = float(term().sum())
            if all(j in unused for j in dep):
                free.append((tid, val))
    with torch.no_grad():
        got = float(target().sum()) - float(joint().sum())
    wants = []
    for r in range(len(free) + 1):
        for sub in itertools.combinations(free, r):
            wants.append(float(logdet) + sum(v for _, v in sub))
    # which raw parameters the prior-less coordinates belong to
    owners, o = [], 0
    for r, n in zip(raws, sizes):
        if any(j in unused for j in range(o, o + n)):
            owners.append(str(r.id))
        o += n
    jacobian_rule.noprior = owners
    return got, wants, (f"{len(unused)} raw coordinates carry no prior; optional terms {[t for t, _ in free]}" if unused else "")


def run_config(opts, workdir) -> Result:
    import torch
    r = Result(opts)
    argv = argv_of(opts)
    doc, err = run_cli(argv)
    if err:
        r.stage, r.error = err
        return r
    r.doc = doc
    r.abs = {"events": abstract(doc)[0], "transformed": transformed(doc)}
    cwd = os.getcwd()
    os.makedirs(workdir, exist_ok=True)
    os.chdir(workdir)
    try:
        try:
            with contextlib.redirect_stdout(io.StringIO()):
                dic = zoo.load(doc)
        except Exception as e:
            import traceback
            root = e
            while root.__context__ is not None:
                root = root.__context__
            tb = traceback.extract_tb(root.__traceback__)
            where = next((f"{os.path.basename(f.filename)}:{f.name}" for f in reversed(tb) if "/torchtree/" in f.filename and "core/utils.py" not in f.filename
                          and "serializable.py" not in f.filename), "?")
            r.stage, r.error = "load", f"{type(root).__name__}: {str(root)[:100]} at {where}"
            return r
        try:
            target, raws, joint = target_and_raw(doc, dic, opts["cmd"])
        except Exception as e:
            r.stage, r.error = "load", f"sampler / optimiser section: {type(e).__name__}: {str(e)[:100]}"
            return r
        r.info["raw"] = [p.id for p in raws]
        if target is None:
            r.stage = "ok"
            return r
        # finite target and gradient at the initial point
        try:
            for p in raws:
                p.requires_grad = True
            v = target().sum()
            grads = torch.autograd.grad(v, [p.tensor for p in raws], allow_unused=True)
            for p in raws:
                p.requires_grad = False
        except Exception as e:
            r.stage, r.error = "evaluate", f"{type(e).__name__}: {str(e)[:120]}"
            return r
        r.info["target"] = float(v.detach())
        if not math.isfinite(float(v.detach())):
            r.problems.append(("target-nonfinite", f"target density at the initial point is {float(v.detach())}"))
        for p, g in zip(raws, grads):
            if g is None:
                r.problems.append(("gradient-missing", f"no gradient for {p.id}"))
            elif not bool(torch.isfinite(g).all()):
                r.problems.append(("gradient-nonfinite", f"gradient of {p.id} is {g.reshape(-1)[:4].tolist()}"))
        # Jacobian rule
        try:
            jt = []
            if target is not joint and hasattr(target, "_distributions"):
                jt = [(str(m.id), m) for m in target._distributions.callables() if m is not joint]
            got, wants, note = jacobian_rule(target, joint, raws, prior_arguments(dic, dic["prior"] if "prior" in dic else joint), jt)
            r.info["jacobian"] = (got, wants[:4] if wants else wants, note)
            r.info["noprior"] = list(getattr(jacobian_rule, "noprior", []))
            if got is None:
                r.info["jacobian_undecided"] = note
            elif not any(abs(got - w) <= 1e-7 * max(1.0, abs(w)) for w in wants):
                r.problems.append(("jacobian", f"target - constrained joint = {got:.10g}, log|det d(prior arguments)/d(raw)| = {wants[0]:.10g}"
                                   + (f" (+ optional terms: {note})" if len(wants) > 1 else "")))
            else:
                # ... and at a second point: several log-Jacobians vanish at the default initial values (log 1)
                gen = torch.Generator().manual_seed(12345)
                saved = [p.tensor.detach().clone() for p in raws]
                for p in raws:
                    p.tensor = p.tensor.detach() + 0.1 * torch.randn(p.tensor.shape, generator=gen, dtype=p.tensor.dtype)
                try:
                    got2, wants2, note2 = jacobian_rule(target, joint, raws, prior_arguments(dic, dic["prior"] if "prior" in dic else joint), jt)
                    if got2 is not None and math.isfinite(got2) and not any(abs(got2 - w) <= 1e-7 * max(1.0, abs(w)) for w in wants2):
                        r.problems.append(("jacobian", f"away from the initial point: target - constrained joint = {got2:.10g}, "
                                           f"log|det d(prior arguments)/d(raw)| = {wants2[0]:.10g}"))
                    r.info["jacobian_second_point"] = got2 is not None
                finally:
                    for p, t0 in zip(raws, saved):
                        p.tensor = t0
        except Exception as e:
            r.info["jacobian_undecided"] = f"{type(e).__name__}: {str(e)[:100]}"
        r.dic = dic
        r.stage = "ok"
        return r
    finally:
        os.chdir(cwd)
