"""C09 - the birth-death skyline density agrees across epochs and with the constant model.

1. TLC: BDSK.tla - epoch assignment of births and samplings, lineages-through-boundary and
   sampled-at-boundary counts as coded vs their definitions for every layout on an integer grid
   (boundaries also exactly on sampling times), and the refinement invariants of splitting an epoch.
2. spec -> code (metamorphic): every emitted (layout, split) pair is evaluated by the real
   PiecewiseConstantBirthDeath with distinct rates per epoch; the refined layout (two sub-epochs
   with identical rates) must give the same log density (1e-10).
3. Absolute value: numerical integration of the birth-death master equations (RK4 for p0 backwards
   in time with rho jumps at boundaries, lineage-through-time integral of the g equation) for
   single-epoch (= constant-rate birth-death-sampling model) and multi-epoch layouts, with and
   without survival conditioning, rho at present / at boundaries; BDSKModel() and BirthDeathModel()
   built from JSON against the same reference.
4. Options: every JSON option of BDSKModel.from_json must set the constructor argument it names.
"""
from __future__ import annotations

import json
import math
import random
import shutil

from . import tlc
from .common import Ctx, Machinery, use_src

LEVEL = "exploration"
SCALE = 0.4


def run_tlc(origin, ntips, bsets, emit, mod):
    d = tlc.workdir("c09")
    t, c = tlc.write_mc(d, "MC_BDSK", "BDSK", {"Origin": str(origin), "NTips": str(ntips), "BoundarySets": bsets, "Emit": "TRUE" if emit else "FALSE", "EmitMod": str(mod)},
                        ["SPECIFICATION Spec"] + ([] if emit else ["INVARIANT Bookkeeping", "INVARIANT Refinement"]))
    res = tlc.run(t, c, workers=8 if emit else 16, tag="c09", timeout=1500)
    shutil.rmtree(d, ignore_errors=True)
    return res


def rates_for(m, rnd):
    lam = [round(rnd.uniform(1.0, 3.0), 3) for _ in range(m)]
    mu = [round(rnd.uniform(0.2, 1.0), 3) for _ in range(m)]
    psi = [round(rnd.uniform(0.3, 1.5), 3) for _ in range(m)]
    return lam, mu, psi


def real_logp(births, tips, T, origin, lam, mu, psi, rho, survival=True):
    """PiecewiseConstantBirthDeath on forward times (births, tips, boundaries T incl. 0 and origin)."""
    import torch
    from torchtree.evolution.bdsk import PiecewiseConstantBirthDeath
    heights = torch.tensor([origin - t for t in tips] + [origin - b for b in births])
    d = PiecewiseConstantBirthDeath(torch.tensor(lam), torch.tensor(mu), torch.tensor(psi), rho=torch.tensor(rho), origin=torch.tensor([origin]),
                                    times=torch.tensor(T[:-1]), survival=survival)
    return float(d.log_prob(heights))


def real_logp_batched(births, tips, T, origin, rows, survival=True):
    """One call with a leading batch dimension: rows = [(lam, mu, psi, rho), ...]; returns one value per row."""
    import torch
    from torchtree.evolution.bdsk import PiecewiseConstantBirthDeath
    B = len(rows)
    heights = torch.tensor([origin - t for t in tips] + [origin - b for b in births]).expand(B, -1).clone()
    col = lambda k: torch.tensor([r[k] for r in rows])
    d = PiecewiseConstantBirthDeath(col(0), col(1), col(2), rho=col(3), origin=torch.tensor([origin]), times=torch.tensor(T[:-1]), survival=survival)
    return d.log_prob(heights).reshape(-1).tolist()


def ode_reference(births, tips, T, origin, lam, mu, psi, rho, survival=True, steps=400):
    """log density of the oriented sampled tree by numerical integration of the master equations.
    Forward time s in [0, origin]; epoch i: T[i] <= s < T[i+1]; rho[i] = sampling probability at T[i+1].
    p0 (probability of no sampled descendant) is integrated backwards from the present with RK4 on
    every piece between consecutive event / boundary times (constant lineage count on a piece):
      dp0/da = mu - (lambda+mu+psi) p0 + lambda p0^2,  d log g/da = -(lambda+mu+psi) + 2 lambda p0."""
    m = len(T) - 1

    def epoch(s):
        for i in range(m):
            if T[i] <= s < T[i + 1]:
                return i
        return m - 1

    def alive(s):
        return 1 + sum(1 for b in births if b < s) - sum(1 for t in tips if t <= s)
    breaks = sorted(set([0.0, origin] + list(births) + list(tips) + list(T)))
    p = 1.0 - rho[m - 1]
    logf = 0.0
    for s1, s0 in zip(reversed(breaks[1:]), reversed(breaks[:-1])):      # pieces from the present backwards: (s0, s1)
        mid = (s0 + s1) / 2
        i = epoch(mid)
        k = alive(mid)
        h = (s1 - s0) / steps
        f = lambda pp: mu[i] - (lam[i] + mu[i] + psi[i]) * pp + lam[i] * pp * pp
        acc = 0.0
        for _ in range(steps):
            k1 = f(p)
            k2 = f(p + h / 2 * k1)
            k3 = f(p + h / 2 * k2)
            k4 = f(p + h * k3)
            pn = p + h / 6 * (k1 + 2 * k2 + 2 * k3 + k4)
            pm = (p + pn) / 2 + h / 8 * (k1 - f(pn))
            acc += h / 6 * ((2 * lam[i] * p) + 4 * (2 * lam[i] * pm) + (2 * lam[i] * pn))
            p = pn
        logf += k * (acc - (lam[i] + mu[i] + psi[i]) * (s1 - s0))
        # going further back across an epoch boundary at s0 with rho sampling there
        for j in range(1, m):
            if T[j] == s0 and rho[j - 1] > 0:
                logf += alive(s0) * math.log(1 - rho[j - 1])
                p = (1 - rho[j - 1]) * p
    p_origin = p
    for b in births:
        logf += math.log(lam[epoch(b)])
    for t in tips:
        on_boundary = [i for i in range(m) if T[i + 1] == t and rho[i] > 0]
        if on_boundary:
            logf += math.log(rho[on_boundary[0]])
        else:
            logf += math.log(psi[epoch(t)])
    if survival:
        logf -= math.log(1 - p_origin)
    return logf


def close(a, b, tol):
    return abs(a - b) <= tol * max(1.0, abs(b))


def check_split(ctx: Ctx, case, rnd):
    births = [b * SCALE for b in case["births"]]
    tips = [t * SCALE for t in case["tips"]]
    T = [t * SCALE for t in case["T"]]
    origin = case["origin"] * SCALE
    i, s = case["epoch"], case["s"] * SCALE
    m = len(T) - 1
    lam, mu, psi = rates_for(m, rnd)
    rho = [0.0] * (m - 1) + [rnd.choice([0.0, 0.3, 0.7])]
    if any(t == origin for t in tips) and rho[-1] == 0.0 and rnd.random() < 0.5:
        rho[-1] = 0.5
    ctx.add("evaluations")
    ctx.distinct(json.dumps(case), m > 1 or any(t < origin for t in tips))
    T2 = T[: i + 1] + [s] + T[i + 1:]
    dup = lambda v: v[: i + 1] + [v[i]] + v[i + 1:]
    rho2 = rho[:i] + [0.0] + rho[i:]
    try:
        a = real_logp(births, tips, T, origin, lam, mu, psi, rho)
        b = real_logp(births, tips, T2, origin, dup(lam), dup(mu), dup(psi), rho2)
    except Exception as e:
        ctx.violation("C09:split:raises", f"{type(e).__name__}: {e}; case {case}", {"case": case})
        return
    if not close(a, b, 1e-10):
        serial = any(t < origin for t in tips)
        on_b = any(t in T[1:-1] for t in tips)
        ctx.violation(f"C09:split:{'tip-on-boundary' if on_b else ('serial' if serial else 'contemporaneous')}{':rho' if rho[-1] > 0 else ''}",
                      f"splitting epoch {i} at {s} (identical rates, no sampling event there) changes the log density from {a!r} to {b!r}; births {births} tips {tips} "
                      f"boundaries {T} rates {lam} {mu} {psi} rho {rho}", {"case": case, "rates": [lam, mu, psi, rho]})
    return (births, tips, T, origin, lam, mu, psi, rho, a)


def check_absolute(ctx: Ctx, rnd, tier):
    """Random layouts vs the master equations (avoiding events exactly on boundaries for the verdict)."""
    for it in range(40 if tier == "quick" else 300):
        n = rnd.randint(2, 5 if tier == "quick" else 8)
        origin = rnd.uniform(2.0, 4.0)
        m = rnd.choice([1, 1, 2, 3] if tier == "quick" else [1, 2, 3, 4, 8])
        T = [0.0] + sorted(rnd.uniform(0.2, origin - 0.2) for _ in range(m - 1)) + [origin]
        serial = rnd.random() < 0.6
        # a valid sampled tree: births increasing, each tip after enough births
        births = sorted(rnd.uniform(0.1, origin * 0.7) for _ in range(n - 1))
        tips = []
        for k in range(n):
            lo = births[min(k, n - 2)] if n > 1 else 0.1
            tips.append(rnd.uniform(lo + 0.05, origin - 0.05) if (serial and rnd.random() < 0.6) else origin)
        tips = sorted(tips)
        # validity: lineage count stays >= 1 until the last tip and ends at 0
        ok = True
        for s in sorted(births + tips):
            alive = 1 + sum(1 for b in births if b < s) - sum(1 for t in tips if t < s)
            if alive < 1:
                ok = False
        if not ok:
            continue
        lam, mu, psi = rates_for(m, rnd)
        contemporaneous_present = any(t == origin for t in tips)
        rho = [0.0] * (m - 1) + [rnd.choice([0.3, 0.8]) if contemporaneous_present else 0.0]
        for j in range(m - 1):            # rho sampling at an interior boundary (nobody happens to be sampled there)
            if rnd.random() < 0.4:
                rho[j] = rnd.choice([0.2, 0.5])
        survival = rnd.random() < 0.7
        ctx.add("evaluations")
        ctx.distinct(("abs", it), m > 1)
        try:
            got = real_logp(births, tips, T, origin, lam, mu, psi, rho, survival)
        except Exception as e:
            ctx.violation(f"C09:density:raises:m{min(m, 2)}", f"{type(e).__name__}: {e}", {"births": births, "tips": tips, "T": T})
            continue
        # the same layout evaluated for several parameter rows at once: row b must equal the single evaluation of row b
        if it % 2 == 0:
            rows = [(lam, mu, psi, rho)]
            for b in range(rnd.choice([1, 2])):
                f = 1.0 + 0.3 * (b + 1)
                rows.append(([x * f for x in lam], [x / f for x in mu], [x * (2 - 1 / f) for x in psi], [min(0.95, r * f) for r in rho]))
            try:
                vals = real_logp_batched(births, tips, T, origin, rows, survival)
                singles = [real_logp(births, tips, T, origin, *r, survival) for r in rows]
                ctx.add("batched_evaluations")
                if len(vals) != len(rows) or any(not close(a, b, 1e-9) for a, b in zip(vals, singles)):
                    ctx.violation("C09:density:batched" + (":rho" if rho[-1] > 0 else ""), f"{len(rows)} parameter rows evaluated in one call give {vals}, one by one {singles}; "
                                  f"births {births} tips {tips} boundaries {T}", {"births": births, "tips": tips, "T": T, "rows": rows})
            except Exception as e:
                ctx.add("batched_evaluations_raised")
                ctx.cov.setdefault("batched_raise_samples", [])
                if len(ctx.cov["batched_raise_samples"]) < 3:
                    ctx.cov["batched_raise_samples"].append(f"{type(e).__name__}: {str(e)[:100]}")
        # the same process stated with the origin given as the length of the root edge (origin_is_root_edge): the epoch boundaries
        # are absolute times either way, so the density is the same number
        try:
            import torch
            from torchtree.evolution.bdsk import PiecewiseConstantBirthDeath
            hts = torch.tensor([origin - t for t in tips] + sorted(origin - b for b in births))     # the root is the last node, as in a tree model
            edge = origin - float(hts.max())
            d_edge = PiecewiseConstantBirthDeath(torch.tensor(lam), torch.tensor(mu), torch.tensor(psi), rho=torch.tensor(rho), origin=torch.tensor([edge]),
                                                 origin_is_root_edge=True, times=torch.tensor(T[:-1]), survival=survival)
            got_edge = float(d_edge.log_prob(hts))
            ctx.add("root_edge_restatements")
            if not close(got_edge, got, 1e-9):
                ctx.violation(f"C09:density:origin-as-root-edge:{'single-epoch' if m == 1 else 'multi-epoch'}",
                              f"origin {origin} stated as root edge {edge} (origin_is_root_edge) with explicit epoch times {T[:-1]}: log density {got_edge!r}, "
                              f"with the absolute origin {got!r}; births {births} tips {tips}", {"births": births, "tips": tips, "T": T, "edge": edge})
        except Exception as e:
            ctx.violation(f"C09:density:origin-as-root-edge:raises:{'single-epoch' if m == 1 else 'multi-epoch'}",
                          f"origin stated as root edge with explicit epoch times {T[:-1]} raised {type(e).__name__}: {str(e)[:120]}; births {births} tips {tips}",
                          {"births": births, "tips": tips, "T": T})
        want = ode_reference(births, tips, T, origin, lam, mu, psi, rho, survival)
        if not close(got, want, 1e-6):
            kind = ("single-epoch" if m == 1 else "multi-epoch") + (":serial" if any(t < origin for t in tips) else ":contemporaneous") + \
                   (":rho" if rho[-1] > 0 else "") + (":interior-rho" if any(r > 0 for r in rho[:-1]) else "") + ("" if survival else ":no-survival")
            ctx.violation(f"C09:density:{kind}", f"log density {got!r} vs integration of the master equations {want!r}; births {births} tips {tips} boundaries {T} "
                          f"lambda {lam} mu {mu} psi {psi} rho {rho} survival {survival}", {"births": births, "tips": tips, "T": T, "rates": [lam, mu, psi, rho]})


def tree_json(rnd, n, serial):
    """A small time tree (TimeTreeModel JSON) with valid heights; returns (doc elements, node heights)."""
    names = [f"t{i}" for i in range(n)]
    dates = [0.0] + [rnd.choice([0.0, 0.5, 1.0]) if serial else 0.0 for _ in range(n - 1)]
    t = names[0]
    heights, h = [], 0.0
    for k in range(1, n):
        t = f"({t},{names[k]})"
        h = max(h, dates[k]) + rnd.uniform(0.2, 0.8)
        heights.append(h)
    taxa = {"id": "taxa", "type": "Taxa", "taxa": [{"id": names[i], "type": "Taxon", "attributes": {"date": dates[i]}} for i in range(n)]}
    tree = {"id": "tree", "type": "TimeTreeModel", "newick": t + ";", "taxa": "taxa", "internal_heights": {"id": "h", "type": "Parameter", "tensor": heights}}
    return [taxa, tree], dates, heights


def P(id_, t):
    return {"id": id_, "type": "Parameter", "tensor": t}


def check_models_and_options(ctx: Ctx, rnd):
    import torch
    from torchtree.core.utils import process_object
    from torchtree.evolution.bdsk import BDSKModel
    # BDSKModel() = PiecewiseConstantBirthDeath with the documented reparameterisation
    for serial in (False, True):
        for m in (1, 2):
            doc, dates, heights = tree_json(rnd, 4, serial)
            origin = max(heights) + 0.7
            R, delta, s = [1.8, 1.2][:m], [1.5, 2.0][:m], [0.3, 0.5][:m]
            rho = [0.6] if not serial else [0.4]
            js = {"id": "bdsk", "type": "BDSKModel", "tree_model": "tree", "R": P("R", R), "delta": P("delta", delta), "s": P("s", s), "rho": P("rho", rho),
                  "origin": P("origin", [origin])}
            dic = {}
            ctx.add("evaluations")
            try:
                for e in doc:
                    process_object(e, dic)
                got = float(process_object(js, dic)())
            except Exception as e:
                ctx.violation("C09:BDSKModel:raises", f"{type(e).__name__}: {e}", {"json": js})
                continue
            lam = [a * b for a, b in zip(R, delta)]
            mu = [d_ - s_ * d_ for d_, s_ in zip(delta, s)]
            psi = [s_ * d_ for d_, s_ in zip(delta, s)]
            T = [origin * k / m for k in range(m + 1)]
            births = [origin - h for h in heights]
            tips = [origin - d for d in dates]
            rho_full = [0.0] * (m - 1) + rho
            want = ode_reference(sorted(births), sorted(tips), T, origin, lam, mu, psi, rho_full, True)
            if not close(got, want, 1e-6):
                ctx.violation(f"C09:BDSKModel:density:{'serial' if serial else 'contemporaneous'}:m{m}", f"BDSKModel() = {got!r}, master equations give {want!r}", {"json": js})
    # BirthDeathModel from JSON (constant rates), contemporaneous and serial sampling
    for serial in (False, True):
        for rho_v in (0.6, 0.0) if serial else (0.6,):
            doc, dates, heights = tree_json(rnd, 4, serial)
            origin = max(heights) + 0.5
            js = {"id": "bd", "type": "BirthDeathModel", "tree_model": "tree", "lambda": P("l", [2.0]), "mu": P("m", [0.5]), "psi": P("p", [0.4]), "rho": P("r", [rho_v]),
                  "origin": P("o", [origin])}
            dic = {}
            ctx.add("evaluations")
            try:
                for e in doc:
                    process_object(e, dic)
                got = float(process_object(js, dic)())
                births = sorted(origin - h for h in heights)
                want = ode_reference(births, sorted(origin - d for d in dates), [0.0, origin], origin, [2.0], [0.5], [0.4], [rho_v], True)
                if not close(got, want, 1e-6):
                    ctx.violation(f"C09:BirthDeathModel:density:{'serial' if serial else 'contemporaneous'}{'' if rho_v else ':rho0'}",
                                  f"BirthDeathModel() = {got!r}, master equations give {want!r} (dates {dates}, rho {rho_v})", {"json": js})
            except Exception as e:
                ctx.violation("C09:BirthDeathModel:raises", f"BirthDeathModel() raised {type(e).__name__}: {e}", {"json": js})
    # option plumbing: each JSON key sets the argument it names
    doc, dates, heights = tree_json(rnd, 3, True)
    base = {"id": "bdsk", "type": "BDSKModel", "tree_model": "tree", "R": P("R", [1.5]), "delta": P("delta", [1.0]), "s": P("s", [0.4]), "origin": P("origin", [5.0])}
    table = [("survival", False, "survival", False), ("survival", True, "survival", True), ("relative_times", True, "relative_times", True),
             ("origin_is_root_edge", True, "origin_is_root_edge", True), ("rho", P("rho", [0.3]), "rho", [0.3]),
             ("removal_probability", P("rp", [0.7]), "removal_probability", [0.7]), ("times", P("times", [0.0]), "times", [0.0])]
    for key, val, attr, want in table:
        js = dict(base)
        js[key] = val
        dic = {}
        ctx.add("evaluations")
        try:
            for e in doc:
                process_object(e, dic)
            obj = process_object(js, dic)
        except Exception as e:
            ctx.violation(f"C09:options:{key}:raises", f"BDSKModel.from_json with option {key} raised {type(e).__name__}: {e}", {"json": js})
            continue
        got = getattr(obj, attr)
        gv = got.tensor.tolist() if hasattr(got, "tensor") else got
        if gv != want:
            ctx.violation(f"C09:options:{key}", f"JSON option {key}={val!r}: attribute {attr} is {gv!r}, expected {want!r}", {"json": js})
        # and no other option is touched
        defaults = {"survival": True, "relative_times": False, "origin_is_root_edge": False, "rho": None, "removal_probability": None, "times": None}
        for other, dv in defaults.items():
            if other == attr:
                continue
            ov = getattr(obj, other)
            ov = ov.tensor.tolist() if hasattr(ov, "tensor") else ov
            if ov != dv:
                ctx.violation(f"C09:options:{key}:sets:{other}", f"JSON option {key} also changed {other} to {ov!r} (default {dv!r})", {"json": js})


def run(ctx: Ctx):
    use_src()
    import logging
    logging.disable(logging.CRITICAL)
    rnd = random.Random(ctx.seed + 9)
    plans = [(6, 3, "{{},{2},{3},{2,4},{1,3,5}}", 3), (7, 4, "{{},{3},{2,5}}", 23)] if ctx.tier == "quick" else \
        [(6, 3, "{{},{2},{3},{2,4},{1,3,5}}", 1), (7, 4, "{{},{3},{2,5},{1,2,3,4,5,6}}", 7), (8, 5, "{{4},{2,6}}", 101)]
    for origin, ntips, bsets, mod in plans:
        res = run_tlc(origin, ntips, bsets, False, 1)
        ctx.tlc(res, f"BDSK origin={origin} tips={ntips} boundaries={bsets}")
        if res.violations:
            raise Machinery(f"BDSK.tla: {res.violations[0].name} violated (spec or design error): {res.violations[0].trace[-1][1]}")
        cases = run_tlc(origin, ntips, bsets, True, mod).emitted("CASE")
        if not cases:
            raise Machinery("no split cases emitted")
        for case in cases[:400]:
            r = check_split(ctx, case, rnd)
            ctx.add("traces_validated_against_impl")
        ctx.sample(cases[len(cases) // 2], limit=3)
    check_absolute(ctx, rnd, ctx.tier)
    check_models_and_options(ctx, rnd)
    ctx.cov["rule"] = ("TLC-emitted (layout, split) pairs as metamorphic tests; random layouts vs numerical integration of the master equations; JSON models and options; "
                       "non-trivial = several epochs or serial sampling")
    ctx.assumptions += ["density convention: oriented trees (as in the repository's tests against BEAST2's bdsky), sampled individuals removed (r = 1) unless stated",
                        "events exactly on an epoch boundary are covered by the TLC bookkeeping invariants and the split pairs, not by the absolute-value comparison",
                        "master equations integrated with RK4 (4000 steps per epoch), tolerance 1e-6"]
