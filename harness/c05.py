"""C05 - among-site rate models keep the mean substitution rate at one.

1. TLC: SiteModel.tla - category layout and normalisation over exact rationals (raw quantile
   rates as rational atoms) for constant / invariant / discretised (+invariant, +mu) models, and
   the lazy cache (parameter versions, needs_update) over all set/read histories of length 4.
2. The Python transliteration (oracle_phylo.site_model with the Weibull quantile) is validated
   against the TLC-emitted cases by substituting the same atoms.
3. Real ConstantSiteModel / InvariantSiteModel / WeibullSiteModel built from JSON: rates() and
   probabilities() vs the reference (1e-12) for K = 1..16, shapes 1e-2..1e2, invariant
   proportions, relative rates; the property's clauses on the implementation's own output; batched
   parameters vs slices; set/read histories on a live object (cache).
"""
from __future__ import annotations

import json
import math
import random
import shutil
from fractions import Fraction

from . import tlc
from . import oracle_phylo as O
from .common import Ctx, Machinery, use_src

LEVEL = "exploration"


def rat(x):
    f = Fraction(x)
    return f"<<{f.numerator}, {f.denominator}>>"


def lattice():
    cases = []
    atoms = {1: [[Fraction(1)]], 2: [[Fraction(1, 3), Fraction(5, 2)]], 3: [[Fraction(1, 8), Fraction(1), Fraction(7, 2)]],
             4: [[Fraction(1, 10), Fraction(1, 2), Fraction(3, 2), Fraction(4)]]}
    ps = [Fraction(1, 10), Fraction(1, 2)]
    mus = [Fraction(3), Fraction(1, 4)]
    cases.append(dict(kind="constant", K=1, q=[Fraction(1)], p=Fraction(0), mu=Fraction(1), hasP=False, hasMu=False))
    for p in ps:
        cases.append(dict(kind="invariant", K=1, q=[Fraction(1)], p=p, mu=Fraction(1), hasP=True, hasMu=False))
        for mu in mus:
            cases.append(dict(kind="invariant", K=1, q=[Fraction(1)], p=p, mu=mu, hasP=True, hasMu=True))
    for K, qs in atoms.items():
        for q in qs:
            cases.append(dict(kind="weibull", K=K, q=q, p=Fraction(0), mu=Fraction(1), hasP=False, hasMu=False))
            for p in ps:
                cases.append(dict(kind="weibull", K=K, q=q, p=p, mu=Fraction(1), hasP=True, hasMu=False))
                cases.append(dict(kind="weibull", K=K, q=q, p=p, mu=mus[0], hasP=True, hasMu=True))
            cases.append(dict(kind="weibull", K=K, q=q, p=Fraction(0), mu=mus[1], hasP=False, hasMu=True))
    return cases


def case_tla(c):
    return (f'[kind |-> "{c["kind"]}", K |-> {c["K"]}, q |-> <<{", ".join(rat(x) for x in c["q"])}>>, p |-> {rat(c["p"])}, '
            f'mu |-> {rat(c["mu"])}, hasP |-> {tlc.tla(c["hasP"])}, hasMu |-> {tlc.tla(c["hasMu"])}]')


def fr(p):
    return Fraction(p[0], p[1])


def layout(kind, K, q, p, mu):
    """Transliteration of SiteModel.tla's Rates / Probs with given raw quantile rates q."""
    if kind == "constant":
        return [mu if mu is not None else 1], [1]
    if kind == "invariant":
        pr, raw = [p, 1 - p], [0, 1 / (1 - p)]
    elif p is not None:
        pr, raw = [p] + [(1 - p) / K] * K, [0] + list(q)
    else:
        pr, raw = [Fraction(1, K) if isinstance(q[0], Fraction) else 1.0 / K] * K, list(q)
    mean = sum(a * b for a, b in zip(pr, raw))
    r = [x / mean * (mu if mu is not None else 1) for x in raw]
    return r, pr


def P(id_, t):
    return {"id": id_, "type": "Parameter", "tensor": t}


def build(kind, K, shape, p, mu):
    from torchtree.core.utils import process_object
    js = {"id": "sm"}
    if kind == "constant":
        js["type"] = "ConstantSiteModel"
    elif kind == "invariant":
        js["type"] = "InvariantSiteModel"
        js["invariant"] = P("pinv", p)
    else:
        js["type"] = "WeibullSiteModel"
        js["categories"] = K
        js["shape"] = P("shape", shape)
        if p is not None:
            js["invariant"] = P("pinv", p)
    if mu is not None:
        js["mu"] = P("mu", mu)
    return process_object(js, {})


def reference(kind, K, shape, p, mu):
    q = [O.weibull_quantile((2 * k + 1) / (2.0 * K), shape) for k in range(K)] if kind == "weibull" else [1.0]
    return layout(kind, K, q, p, mu)


def close(a, b, tol=1e-12):
    return len(a) == len(b) and all(abs(x - y) <= tol * max(1.0, abs(y)) for x, y in zip(a, b))


def check_point(ctx: Ctx, kind, K, shape, p, mu):
    import torch
    key = (kind, K, shape, p, mu)
    ctx.add("evaluations")
    ctx.distinct(key, kind != "constant")
    wrap = lambda v: None if v is None else [v]
    try:
        sm = build(kind, K, wrap(shape), wrap(p), wrap(mu))
        rates, probs = sm.rates().reshape(-1).tolist(), sm.probabilities().reshape(-1).tolist()
    except Exception as e:
        ctx.violation(f"C05:{kind}:raises", f"{key}: {type(e).__name__}: {e}", {"case": key})
        return
    rr, pp = reference(kind, K, shape, p, mu)
    tag = f"{kind} K={K} shape={shape} invariant={p} mu={mu}"
    if not close(probs, pp):
        ctx.violation(f"C05:{kind}:probabilities", f"{tag}: probabilities {probs} expected {pp}", {"case": key})
    elif not close(rates, rr, 1e-11):
        ctx.violation(f"C05:{kind}:rates", f"{tag}: rates {rates} expected {rr}", {"case": key})
    # the clauses on the implementation's own output
    if abs(sum(probs) - 1) > 1e-12 or min(probs) < 0 or min(rates) < 0:
        ctx.violation(f"C05:{kind}:simplex", f"{tag}: probabilities {probs} / rates {rates} not valid", {"case": key})
    m = sum(a * b for a, b in zip(rates, probs))
    if abs(m - (mu if mu is not None else 1.0)) > 1e-11 * max(1.0, abs(mu or 1.0)):
        ctx.violation(f"C05:{kind}:mean-rate", f"{tag}: probability-weighted mean rate is {m}", {"case": key})
    if p is not None and kind != "constant" and (rates[0] != 0.0 or abs(probs[0] - p) > 1e-15):
        ctx.violation(f"C05:{kind}:invariant-category", f"{tag}: invariant category has rate {rates[0]} probability {probs[0]}", {"case": key})


def check_batched(ctx: Ctx, rnd):
    import torch
    for kind, K, hasP, hasMu in (("weibull", 4, False, False), ("weibull", 3, True, True), ("invariant", 1, True, True), ("weibull", 5, True, False)):
        B = 3
        shapes = [[rnd.uniform(0.2, 3)] for _ in range(B)]
        ps = [[rnd.uniform(0.05, 0.6)] for _ in range(B)] if hasP else None
        mus = [[rnd.uniform(0.3, 3)] for _ in range(B)] if hasMu else None
        ctx.add("evaluations")
        try:
            sm = build(kind, K, shapes, ps, mus)
            R, Pr = sm.rates(), sm.probabilities()
        except Exception as e:
            ctx.cov.setdefault("batched_raised", []).append(f"{kind} K={K}: {type(e).__name__}: {str(e)[:80]}")
            continue
        for b in range(B):
            rr, pp = reference(kind, K, shapes[b][0], ps[b][0] if ps else None, mus[b][0] if mus else None)
            if not close(R[b].reshape(-1).tolist(), rr, 1e-11) or not close(Pr[b].reshape(-1).tolist() if Pr.dim() > 1 else Pr.tolist(), pp):
                ctx.violation(f"C05:{kind}:batched", f"{kind} K={K} batched parameters: slice {b} gives rates {R[b].tolist()} expected {rr}",
                              {"kind": kind, "K": K})
                break


def check_history(ctx: Ctx, rnd):
    """set / read histories on a live object (every length-4 history over {set shape, set invariant,
    set mu, read}); after each read the values must be those of the current parameters."""
    import itertools
    import torch
    for kind, K, with_inv, order in (("weibull", 3, True, "rp"), ("weibull", 3, True, "pr"), ("weibull", 3, False, "rp"), ("weibull", 3, False, "pr"),
                                     ("invariant", 1, True, "rp"), ("invariant", 1, True, "pr")):
        for hist in itertools.product(["shape", "pinv", "mu", "read"], repeat=4):
            if kind == "invariant" and "shape" in hist:
                continue
            if not with_inv and "pinv" in hist:
                continue
            cur = {"shape": 0.7, "pinv": 0.2 if with_inv else None, "mu": 1.5}
            sm = build(kind, K, [cur["shape"]], [cur["pinv"]] if with_inv else None, [cur["mu"]])
            params = {name: p for name, p in sm._parameters.items()}
            byid = {p.id: p for p in params.values()}
            ctx.add("evaluations")
            for step, a in enumerate(hist + ("read",)):
                if a == "read":
                    rr, pp = reference(kind, K, cur["shape"], cur["pinv"], cur["mu"])
                    # both read orders: a reader that asks for the proportions first must not leave the rates stale
                    try:
                        if order == "rp":
                            got_r, got_p = sm.rates().reshape(-1).tolist(), sm.probabilities().reshape(-1).tolist()
                        else:
                            got_p, got_r = sm.probabilities().reshape(-1).tolist(), sm.rates().reshape(-1).tolist()
                    except Exception as e:
                        ctx.violation(f"C05:{kind}:read-fails", f"{kind}{'' if with_inv else ' (no invariant class)'}: after history {hist[:step]} (read order {order}) "
                                      f"reading rates / probabilities fails: {type(e).__name__}: {e}", {"kind": kind, "history": hist, "order": order})
                        break
                    if not close(got_r, rr, 1e-11) or not close(got_p, pp):
                        ctx.violation(f"C05:{kind}:stale-after:{'-'.join(hist[:step])}",
                                      f"{kind}{'' if with_inv else ' (no invariant class)'}: after history {hist[:step]} (read order {order}) rates()/probabilities() are "
                                      f"{got_r}/{got_p}, expected {rr}/{pp}", {"kind": kind, "history": hist, "order": order, "invariant": with_inv})
                        break
                else:
                    cur[a] = {"shape": cur["shape"] * 1.7, "pinv": min(0.9, (cur["pinv"] or 0.0) + 0.15), "mu": cur["mu"] * 0.6}[a]
                    byid[a].tensor = torch.tensor([cur[a]])


def run(ctx: Ctx):
    use_src()
    cases = lattice()
    d = tlc.workdir("c05")
    t, c = tlc.write_mc(d, "MC_SiteModel", "SiteModel", {"Cases": "{" + ",\n ".join(case_tla(x) for x in cases) + "}", "Emit": "TRUE"},
                        ["SPECIFICATION Spec", "INVARIANT Valid", "INVARIANT CacheCoherent"])
    res = tlc.run(t, c, workers=1, tag="c05", timeout=900)
    shutil.rmtree(d, ignore_errors=True)
    ctx.tlc(res, f"SiteModel: {len(cases)} lattice cases x histories")
    if res.violations:
        raise Machinery(f"SiteModel invariants violated on the lattice (spec error): {res.violations[0].name}")
    emitted = res.emitted("CASE")
    if len(emitted) != len(cases):
        raise Machinery(f"emission incomplete: {len(emitted)} of {len(cases)}")
    for em in emitted:
        c = em["case"]
        q = [fr(x) for x in c["q"]]
        r, p = layout(c["kind"], c["K"], q, fr(c["p"]) if c["hasP"] else None, fr(c["mu"]) if c["hasMu"] else None)
        if [Fraction(x) for x in r] != [fr(x) for x in em["rates"]] or [Fraction(x) for x in p] != [fr(x) for x in em["probs"]]:
            raise Machinery(f"transliteration disagrees with SiteModel.tla on {c}")
        ctx.add("oracle_self_checks")
    ctx.sample({"case": emitted[5]["case"], "rates": emitted[5]["rates"], "probs": emitted[5]["probs"]}, limit=1)
    rnd = random.Random(ctx.seed + 5)
    check_point(ctx, "constant", 1, None, None, None)
    check_point(ctx, "constant", 1, None, None, 2.5)
    shapes = [0.01, 0.1, 0.5, 1.0, 2.0, 10.0, 100.0]
    for K in (range(1, 17) if ctx.tier == "thorough" else (1, 2, 3, 4, 8, 16)):
        for shape in shapes:
            for p in (None, 0.0, 0.1, 0.5, 0.95):
                for mu in (None, 0.25, 3.0):
                    check_point(ctx, "weibull", K, shape, p, mu)
    # admissible proportions close to the ends of (0, 1): the variable class runs at mu / (1 - p)
    for p in (0.0, 1e-9, 0.01, 0.3, 0.9, 1 - 1e-5, 1 - 1e-7, 1 - 1e-9):
        for mu in (None, 0.5, 4.0):
            check_point(ctx, "invariant", 1, None, p, mu)
    for p in (1e-9, 1 - 1e-7):
        check_point(ctx, "weibull", 4, 0.5, p, 2.0)
    for _ in range(50 if ctx.tier == "quick" else 500):
        check_point(ctx, "weibull", rnd.randint(1, 16), 10 ** rnd.uniform(-2, 2), rnd.choice([None, rnd.uniform(0, 0.99)]),
                    rnd.choice([None, 10 ** rnd.uniform(-1, 1)]))
    check_batched(ctx, rnd)
    check_history(ctx, rnd)
    ctx.cov["rule"] = "site model x K x shape x invariant x mu grid + random points + batched + all set/read histories of length 4; non-trivial = not the constant model"
    ctx.assumptions += ["the Weibull median quantile (-log(1-u))^(1/shape) with u=(2k+1)/(2K) is evaluated in double precision by the reference"]
