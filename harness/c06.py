"""C06 - node-height parameterisations yield a valid time tree and are invertible.

1. TLC: NodeHeights.tla (exact rationals) - for every ordered labelled tree (3, 4 taxa; 5 thorough),
   every date vector of the lattice (ages and calendar dates, ties) and every lattice parameter
   vector, for both parameterisations: tips at their sampling heights, parents not younger than
   children, branch = parent - child >= 0, inverse(forward(x)) = x, Jacobian determinant.
2. spec -> code: emitted cases are built as real ReparameterizedTimeTreeModels from JSON and
   compared exactly (dyadic rationals): node_heights, branch_lengths() by node index, transform(x),
   transform.inv(heights); the same for parameter batches [B]; and after cpu() / to(float32) /
   to(float64) the parameterisation in force and the heights must be unchanged.
"""
from __future__ import annotations

import json
import math
import random

from . import nh
from .common import Ctx, Machinery, use_src

LEVEL = "model_checking"


def seq(v, lo, hi):
    """Emitted function with integer domain lo..hi (JSON list or object) -> list."""
    if isinstance(v, dict):
        return [v[str(i)] for i in range(lo, hi + 1)]
    return list(v)


def close(a, b, tol=0.0):
    return len(a) == len(b) and all(abs(x - y) <= tol for x, y in zip(a, b))


def check_case(ctx: Ctx, case):
    import torch
    n = len(case["dates"])
    kind = case["kind"]
    x = [float(nh.fr(v)) for v in seq(case["x"], n, 2 * n - 2)]
    heights = [float(nh.fr(v)) for v in seq(case["heights"], 0, 2 * n - 2)]
    branches = [float(nh.fr(v)) for v in seq(case["branches"], 0, 2 * n - 3)]
    c = dict(case, x=seq(case["x"], n, 2 * n - 2))
    key = json.dumps([case["tree"], case["dates"], kind, c["x"]])
    ctx.add("evaluations")
    ctx.distinct(key, len(set(case["dates"])) > 1)
    try:
        tm, dic = nh.build_model(c)
        got_h = tm.node_heights.tolist()
        got_b = tm.branch_lengths().tolist()
        xt = torch.tensor(x)
        fw = tm.transform(xt).tolist()
    except Exception as e:
        ctx.violation(f"C06:{kind}:raises", f"{kind} model raised {type(e).__name__}: {e}; case {key[:300]}", {"case": case})
        return None
    post = [list(map(int, t)) for t in tm.postorder]
    if post != [list(t) for t in case["post"]]:
        ctx.violation(f"C06:{kind}:postorder", f"real post-order {post} differs from Trees.tla {case['post']}", {"case": case})
        return None
    if not close(got_h, heights):
        ctx.violation(f"C06:{kind}:heights", f"node heights {got_h} differ from the specified {heights}; tree {case['tree']} dates {case['dates']} x {x}", {"case": case})
        return None
    if not close(fw, heights[n:]):
        ctx.violation(f"C06:{kind}:transform", f"transform(x) {fw} differs from the specified internal heights {heights[n:]}", {"case": case})
    if not close(got_b, branches):
        ctx.violation(f"C06:{kind}:branch-lengths", f"branch lengths {got_b} differ from parent - child {branches}; tree {case['tree']} dates {case['dates']}", {"case": case})
    if min(got_b) < 0 or any(abs(got_h[i] - heights[i]) > 0 for i in range(n)):
        ctx.violation(f"C06:{kind}:invalid-tree", f"invalid time tree: heights {got_h} branches {got_b}", {"case": case})
    try:
        inv = tm.transform.inv(torch.tensor(heights[n:])).tolist()
        if not close(inv, x, 1e-15):
            ctx.violation(f"C06:{kind}:inverse", f"transform.inv(heights) = {inv}, expected {x}; tree {case['tree']} dates {case['dates']}", {"case": case})
    except Exception as e:
        ctx.violation(f"C06:{kind}:inverse-raises", f"transform.inv raised {type(e).__name__}: {e}", {"case": case})
    return (tm, x, heights)


def check_batched(ctx: Ctx, group):
    import torch
    case0 = group[0]
    n = len(case0["dates"])
    kind = case0["kind"]
    xs = [[float(nh.fr(v)) for v in seq(c["x"], n, 2 * n - 2)] for c in group]
    hs = [[float(nh.fr(v)) for v in seq(c["heights"], 0, 2 * n - 2)] for c in group]
    ctx.add("evaluations")
    try:
        tm, dic = nh.build_model(dict(case0, x=seq(case0["x"], n, 2 * n - 2)), xs=xs)
        H = tm.node_heights
        B = tm.branch_lengths()
    except Exception as e:
        ctx.violation(f"C06:{kind}:batched-forward-raises", f"batched [B={len(group)}] {kind} model raised {type(e).__name__}: {e}", {"case": case0})
        return
    for b in range(len(group)):
        if not close(H[b].tolist(), hs[b]):
            ctx.violation(f"C06:{kind}:batched-heights", f"batched heights slice {b}: {H[b].tolist()} expected {hs[b]}", {"case": group[b]})
            return
    try:
        inv = tm.transform.inv(torch.tensor([h[n:] for h in hs]))
        ok = list(inv.shape) == [len(group), n - 1] and all(close(inv[b].tolist(), xs[b], 1e-15) for b in range(len(group)))
        if not ok:
            ctx.violation(f"C06:{kind}:batched-inverse", f"batched transform.inv gives shape {list(inv.shape)} / values {inv.tolist()}, expected {xs}",
                          {"case": case0, "xs": xs})
    except Exception as e:
        ctx.violation(f"C06:{kind}:batched-inverse", f"batched transform.inv raised {type(e).__name__}: {e} (B={len(group)}, {n} taxa)", {"case": case0, "xs": xs})


def check_moves(ctx: Ctx, case):
    import torch
    n = len(case["dates"])
    kind = case["kind"]
    heights = [float(nh.fr(v)) for v in seq(case["heights"], 0, 2 * n - 2)]
    for moves in (["cpu"], ["float32"], ["float32", "float64"], ["cpu", "float32", "cpu"]):
        tm, dic = nh.build_model(dict(case, x=seq(case["x"], n, 2 * n - 2)))
        cls0 = type(tm.transform).__name__
        tm.node_heights
        ctx.add("evaluations")
        for mv in moves:
            try:
                if mv == "cpu":
                    tm.cpu()
                else:
                    tm.to(getattr(torch, mv))
                    for p in dic.values():
                        if hasattr(p, "fire_parameter_changed"):
                            p.fire_parameter_changed()
                got = tm.node_heights.double().tolist()
            except Exception as e:
                ctx.violation(f"C06:{kind}:move-raises:{mv}", f"{kind} model: {mv} (after {moves}) raised {type(e).__name__}: {e}", {"case": case, "moves": moves})
                break
            cls = type(tm.transform).__name__
            if cls != cls0:
                ctx.violation(f"C06:{kind}:move-changes-parameterisation:{mv}", f"after {mv}() the transform is {cls}, it was {cls0} (moves {moves})",
                              {"case": case, "moves": moves})
                break
            if not close(got, heights, 1e-5):
                ctx.violation(f"C06:{kind}:move-changes-heights:{mv}", f"after {mv} node heights {got} expected {heights} (moves {moves})", {"case": case, "moves": moves})
                break


def check_inplace(ctx: Ctx, a, b):
    """In-place update of the parameter tensor followed by the change notification (what the
    optimiser does): heights, branch lengths and the inverse must follow."""
    import torch
    from torchtree.core.parameter import Parameter
    from torchtree.evolution.tree_model import ReparameterizedTimeTreeModel
    n = len(a["dates"])
    kind = a["kind"]
    xa = [float(nh.fr(v)) for v in a["x"]]
    xb = [float(nh.fr(v)) for v in b["x"]]
    hb = [float(nh.fr(v)) for v in b["heights"]]
    bb = [float(nh.fr(v)) for v in b["branches"]]
    tm0, dic = nh.build_model(a)
    p = Parameter("p", torch.tensor(xa))
    tm = ReparameterizedTimeTreeModel("tree2", tm0.tree, dic["taxa"], **({"ratios_root_height": p} if kind == "ratio" else {"shifts": p}))
    ctx.add("evaluations")
    try:
        tm.node_heights
        tm.branch_lengths()
        with torch.no_grad():
            p.tensor.copy_(torch.tensor(xb))
        p.fire_parameter_changed()
        got_h, got_b = tm.node_heights.tolist(), tm.branch_lengths().tolist()
        inv = tm.transform.inv(torch.tensor(hb[n:])).tolist()
    except Exception as e:
        ctx.violation(f"C06:{kind}:inplace-raises", f"in-place update raised {type(e).__name__}: {e}", {"case": a})
        return
    if not close(got_h, hb) or not close(got_b, bb):
        ctx.violation(f"C06:{kind}:stale-after-inplace-update",
                      f"{kind}: after an in-place update of the parameter ({xa} -> {xb}) and the change notification, node heights are {got_h} "
                      f"(expected {hb}), branch lengths {got_b} (expected {bb})", {"case": a, "to": b})
    elif not close(inv, xb, 1e-15):
        ctx.violation(f"C06:{kind}:stale-inverse-after-inplace-update", f"{kind}: transform.inv(heights) returns {inv} after the in-place update, expected {xb}",
                      {"case": a, "to": b})


def check_calendar_dates(ctx: Ctx, rnd):
    """Sampling dates given as fractional calendar years (2019.9712 ...): the tips of the time tree sit at (latest date - date) to
    double precision, for the plain and the re-parameterised tree models."""
    import torch
    from torchtree.core.utils import process_object
    for it in range(8):
        # half of the cases under the library's default single precision: the difference of two calendar dates must be formed in double
        # precision and only then stored (forming it in float32 puts tips up to 1e-4 years off)
        single = it % 2 == 1
        torch.set_default_dtype(torch.float32 if single else torch.float64)
        tol = 2e-6 if single else 1e-9
        n = rnd.randint(3, 6)
        names = [f"t{i}" for i in range(n)]
        dates = [round(rnd.uniform(2009.0, 2021.0), 4) for _ in range(n)]
        t = names[0]
        for x in names[1:]:
            t = f"({t},{x})"
        for kind in ("ReparameterizedTimeTreeModel", "TimeTreeModel"):
            dic = {}
            process_object({"id": "taxa", "type": "Taxa", "taxa": [{"id": names[i], "type": "Taxon", "attributes": {"date": dates[i]}} for i in range(n)]}, dic)
            js = {"id": "tree", "type": kind, "newick": t + ";", "taxa": "taxa"}
            if kind == "TimeTreeModel":
                js["internal_heights"] = {"id": "h", "type": "Parameter", "tensor": [15.0 + i for i in range(n - 1)]}
            else:
                js["ratios"] = {"id": "r", "type": "Parameter", "tensor": [0.5] * (n - 2)}
                js["root_height"] = {"id": "rh", "type": "Parameter", "tensor": [20.0]}
            ctx.add("evaluations")
            ctx.distinct(("calendar", kind, it))
            try:
                tm = process_object(js, dic)
                tips = tm.node_heights[..., :n].reshape(-1).double().tolist()
            except Exception as e:
                ctx.violation(f"C06:calendar-dates:raises:{kind}", f"{kind} with dates {dates}: {type(e).__name__}: {e}", {"dates": dates})
                continue
            want = [max(dates) - d for d in dates]
            if any(abs(a - b) > tol * max(1.0, abs(b)) for a, b in zip(tips, want)):
                ctx.violation(f"C06:calendar-dates:tip-heights:{kind}", f"{kind} ({'float32' if single else 'float64'} default) with sampling dates {dates}: tip heights {tips}, latest date minus date gives {want} "
                              f"(largest difference {max(abs(a - b) for a, b in zip(tips, want)):.3g})", {"dates": dates})
    torch.set_default_dtype(torch.float64)


def check_smooth_difference(ctx: Ctx, rnd, tier):
    """DifferenceNodeHeightTransform with the smooth maximum (k > 0): heights follow the documented rule
    h_i = logsumexp(k h_children) / k + x_i, and the inverse undoes the forward map (also for nearly tied siblings)."""
    import torch
    from torchtree.evolution.tree_height_transform import DifferenceNodeHeightTransform
    from . import c20
    for it in range(12 if tier == "quick" else 80):
        n = rnd.randint(3, 7)
        tm, dic = c20.time_tree(rnd, n)
        post = [tuple(int(v) for v in t) for t in tm.postorder]
        samp = tm.sampling_times.tolist()
        for k in (0.0, 0.5, 3.0):
            tr = DifferenceNodeHeightTransform(tm, k=k)
            x = [rnd.choice([1e-9, 0.05, 0.4, 1.3]) for _ in range(n - 1)]      # tiny increments make siblings nearly tied
            ctx.add("evaluations")
            ctx.distinct(("smooth", n, k, it))
            h = list(samp) + [None] * (n - 1)
            for node, l, r in post:
                a, b = h[l], h[r]
                m = max(a, b) if k <= 0 else (max(a, b) * k + math.log(math.exp(k * (a - max(a, b))) + math.exp(k * (b - max(a, b))))) / k
                h[node] = m + x[node - n]
            want = h[n:]
            got = tr(torch.tensor(x)).tolist()
            if not close(got, want, 1e-10):
                ctx.violation("C06:difference-transform:smooth-max:forward", f"DifferenceNodeHeightTransform(k={k}) on increments {x}: heights {got}, the documented rule gives {want}",
                              {"k": k, "x": x})
                continue
            back = tr.inv(torch.tensor(want)).tolist()
            if not close(back, x, 1e-9):
                ctx.violation("C06:difference-transform:smooth-max:inverse", f"DifferenceNodeHeightTransform(k={k}): inv(forward(x)) = {back} for x = {x}", {"k": k, "x": x})


def run(ctx: Ctx):
    use_src()
    import logging
    logging.disable(logging.CRITICAL)
    rnd = random.Random(ctx.seed + 6)
    for plan in nh.PLANS[ctx.tier]:
        res = nh.run_tlc(plan, False)
        ctx.tlc(res, f"NodeHeights n={plan[0]} {plan[1]} params={plan[2]} dates={plan[3]}")
        if res.violations:
            raise Machinery(f"NodeHeights.tla AllOK violated (spec error): {res.violations[0].trace[-1][1]}")
        em = nh.run_tlc(plan, True)
        cases = [nh.norm_case(c) for c in em.emitted("CASE")]
        if not cases:
            raise Machinery("no cases emitted")
        groups = {}
        for case in cases:
            if check_case(ctx, case) is not None:
                groups.setdefault(json.dumps([case["tree"], case["dates"]]), []).append(case)
            ctx.add("traces_validated_against_impl")
        for g in list(groups.values())[:: max(1, len(groups) // 40)]:
            if len(g) >= 2:
                check_batched(ctx, g[:3])
        for case in rnd.sample(cases, min(len(cases), 12)):
            check_moves(ctx, case)
        for g in list(groups.values())[:: max(1, len(groups) // 25)]:
            if len(g) >= 2:
                check_inplace(ctx, g[0], g[-1])
        ctx.sample({k: cases[len(cases) // 3][k] for k in ("tree", "dates", "kind", "x", "heights")}, limit=4)
    check_smooth_difference(ctx, rnd, ctx.tier)
    check_calendar_dates(ctx, rnd)
    ctx.cov["rule"] = ("emitted (tree, dates, parameterisation, parameters) cases of the TLC-checked lattice, each replayed exactly; batched groups share "
                       "tree and dates; non-trivial = heterochronous dates")
    ctx.assumptions += ["no GPU: cuda() is not exercised (cpu() and to(dtype) are)"]
