"""C10 - a sample dimension never mixes samples.

1. TLC: Joint.tla - the seven-way shape case analysis of JointDistributionModel.log_prob over
   provenance tensors (sets of atoms; sums are unions): for every combination of up to three
   components drawn from nine kinds (unbatched / [S] / [S,K] sample shapes x scalar / [1] / [n]
   events) with S, K, n in 1..3 - chosen so that S = n and K = n collisions occur - the result
   either is an error or has the joint sample shape with element s made of exactly the atoms of
   sample s (NoMixing).
2. spec -> code: every emitted combination is given to the REAL JointDistributionModel with stub
   callable components returning tensors whose entries are distinct powers of two (one pass per
   component); the numeric result is decoded into atom sets and compared with the requirement;
   an error in the spec must be an exception in the code and vice versa.
3. Real models: for shipped callable models (distributions and joints of them, tree likelihood with
   substitution / site / clock parameters, coalescents, GMRF, CTMC scale, transformed parameters)
   every subset of parameters is batched with sample shapes [S] and [S,K]; the batched value for
   sample s must equal the value obtained from the s-th slices alone, or the evaluation must raise.
"""
from __future__ import annotations

import copy
import itertools
import json
import random
import shutil

from . import tlc
from .common import Ctx, Machinery, use_src

LEVEL = "model_checking"


def kinds(S, K, n):
    sh = lambda *a: list(a)
    return [(sh(), sh()), (sh(1), sh()), (sh(n), sh()), (sh(S), sh(S)), (sh(S, 1), sh(S)), (sh(S, n), sh(S)),
            (sh(S, K), sh(S, K)), (sh(S, K, 1), sh(S, K)), (sh(S, K, n), sh(S, K))]


def kinds_tla(S, K, n):
    t = lambda s: "<<" + ",".join(map(str, s)) + ">>"
    return "{" + ", ".join(f"[lp |-> {t(a)}, ss |-> {t(b)}]" for a, b in kinds(S, K, n)) + "}"


def run_tlc(S, K, n, maxc, emit):
    d = tlc.workdir("c10")
    t, c = tlc.write_mc(d, "MC_Joint", "Joint", {"Kinds": kinds_tla(S, K, n), "MaxComps": str(maxc), "Emit": "TRUE" if emit else "FALSE"},
                        ["SPECIFICATION Spec"] + ([] if emit else ["INVARIANT NoMixing"]))
    res = tlc.run(t, c, workers=8 if emit else 16, cont=True, tag="c10", timeout=1500)
    shutil.rmtree(d, ignore_errors=True)
    return res


def indices(shape):
    return list(itertools.product(*[range(k) for k in shape])) if shape else [()]


def expected(comps):
    """Requirement: joint sample shape and, per sample index, the set of atoms (component, index)."""
    lens = [len(c["ss"]) for c in comps]
    js = comps[lens.index(max(lens))]["ss"]
    out = {}
    for s in indices(js):
        atoms = set()
        for ci, c in enumerate(comps):
            for i in indices(c["lp"]):
                if not c["ss"] or tuple(i[: len(c["ss"])]) == tuple(s[: len(c["ss"])]):
                    atoms.add((ci, i))
        out[s] = atoms
    return js, out


def stub_joint(comps, payload_of):
    import torch
    from torchtree.core.model import CallableModel
    from torchtree.distributions.joint_distribution import JointDistributionModel

    class Stub(CallableModel):
        def __init__(self, id_, tensor, ss):
            super().__init__(id_)
            self._t, self._ss = tensor, torch.Size(ss)

        def _call(self, *a, **k):
            return self._t

        def _sample_shape(self):
            return self._ss

        def handle_parameter_changed(self, *a):
            pass

        @classmethod
        def from_json(cls, data, dic):
            raise NotImplementedError
    stubs = []
    for ci, c in enumerate(comps):
        t = torch.zeros(c["lp"]) if c["lp"] else torch.zeros(())
        vals = payload_of(ci)
        if vals is not None:
            for k, i in enumerate(indices(c["lp"])):
                if c["lp"]:
                    t[i] = vals[k]
                else:
                    t = torch.tensor(vals[k])
        stubs.append(Stub(f"c{ci}", t.double(), c["ss"]))
    return JointDistributionModel("joint", stubs)


def check_stub_case(ctx: Ctx, case):
    import torch
    comps = [{"lp": list(c["lp"]), "ss": list(c["ss"])} for c in case["comps"]]
    js, exp = expected(comps)
    key = json.dumps(comps)
    ctx.add("evaluations")
    collide = len({d for c in comps for d in c["lp"]}) < sum(len(c["lp"]) for c in comps)
    ctx.distinct(key, len(comps) > 1)
    spec_err = case["result"] == "error"
    got_atoms = {}
    raised = None
    shape = None
    for target in range(len(comps)):
        n_at = len(indices(comps[target]["lp"]))
        try:
            j = stub_joint(comps, lambda ci: [float(2 ** k) for k in range(n_at)] if ci == target else None)
            r = j()
        except Exception as e:
            raised = f"{type(e).__name__}: {str(e)[:100]}"
            break
        shape = list(r.shape)
        for s in indices(shape):
            v = int(round(float(r[s] if shape else r)))
            atoms = {(target, indices(comps[target]["lp"])[k]) for k in range(n_at) if v >> k & 1}
            # multiplicities: an atom added twice shows up as the next power of two
            total = sum(2 ** k for k in range(n_at) if v >> k & 1)
            got_atoms.setdefault(s, set()).update(atoms)
            if total != v:
                got_atoms[s].add(("overflow", target))
    tag = "+".join(f"{c['lp']}/{c['ss']}" for c in comps)
    if raised:
        if not spec_err:
            ctx.violation(f"C10:joint-stub:unexpected-error:{tag}", f"components {tag}: the real joint raised {raised}, the transcription in Joint.tla evaluates", {"comps": comps})
        return
    if spec_err:
        ctx.violation(f"C10:joint-stub:no-error:{tag}", f"components {tag}: Joint.tla says the shapes cannot be combined, the real joint returned shape {shape}", {"comps": comps})
        return
    if shape != list(js) or got_atoms != exp:
        bad = next((s for s in exp if got_atoms.get(s) != exp[s]), None)
        ctx.violation(f"C10:joint-stub:mixing:{tag}", f"components {tag}: result shape {shape} (joint sample shape {js}); element {bad} sums atoms "
                      f"{sorted(got_atoms.get(bad, []))} instead of {sorted(exp.get(bad, []))}", {"comps": comps})
    else:
        ctx.add("traces_validated_against_impl")


# ------------------------------------------------------------------ real models: batched vs slices
def P(id_, t):
    return {"id": id_, "type": "Parameter", "tensor": t}


def real_models():
    """(name, json document, id of the callable, {parameter id: domain})."""
    from . import zoo
    out = []
    out.append(("normal-joint", [
        {"id": "d1", "type": "Distribution", "distribution": "torch.distributions.Normal", "x": P("x", [0.3, -0.2, 0.8]),
         "parameters": {"loc": P("loc", [0.5]), "scale": P("scale", [1.5])}},
        {"id": "d2", "type": "Distribution", "distribution": "torch.distributions.Gamma", "x": P("y", [0.7]),
         "parameters": {"concentration": P("shape", [2.0]), "rate": P("rate", [1.5])}},
        {"id": "m", "type": "JointDistributionModel", "distributions": ["d1", "d2"]}], "m",
        {"x": "real", "y": "pos", "loc": "real", "scale": "pos"}))
    out.append(("transformed", [
        {"id": "d", "type": "Distribution", "distribution": "torch.distributions.LogNormal",
         "x": {"id": "pos", "type": "TransformedParameter", "transform": "torch.distributions.ExpTransform", "x": P("u", [0.1, -0.4])},
         "parameters": {"loc": P("mu", [0.0]), "scale": P("sd", [1.0])}},
        {"id": "m", "type": "JointDistributionModel", "distributions": ["d", "pos"]}], "m", {"u": "real", "mu": "real"}))
    out.append(("gmrf", [
        {"id": "m", "type": "GMRF", "x": P("field", [0.3, -0.1, 0.5, 0.2]), "precision": P("tau", [2.0])}], "m", {"field": "real", "tau": "pos"}))
    out.append(("constant-coalescent", [
        {"id": "m", "type": "ConstantCoalescentModel", "theta": P("theta", [2.0]), "times": [0.0, 0.0, 0.5, 0.8, 1.1, 1.9, 2.5], "events": [1, 1, 1, 0, 1, 0, 0]}],
        "m", {"theta": "pos"}))
    out.append(("skygrid", [
        {"id": "m", "type": "PiecewiseConstantCoalescentGridModel", "theta": P("theta", [2.0, 1.0, 3.0]), "grid": [1.0, 2.0],
         "times": [0.0, 0.0, 0.5, 0.8, 1.1, 1.9, 2.5], "events": [1, 1, 1, 0, 1, 0, 0]}], "m", {"theta": "pos"}))
    out.append(("skyride", [
        {"id": "m", "type": "PiecewiseConstantCoalescentModel", "theta": P("theta", [2.0, 1.0, 3.0]),
         "times": [0.0, 0.0, 0.5, 0.8, 1.1, 1.9, 2.5], "events": [1, 1, 1, 0, 1, 0, 0]}], "m", {"theta": "pos"}))
    # models with a second demographic parameter: each of them batched alone must still be seen by the sample shape
    out.append(("exponential-coalescent", [
        {"id": "m", "type": "ExponentialCoalescentModel", "theta": P("theta", [2.0]), "growth": P("growth", [0.4]),
         "times": [0.0, 0.0, 0.5, 0.8, 1.1, 1.9, 2.5], "events": [1, 1, 1, 0, 1, 0, 0]}], "m", {"theta": "pos", "growth": "real"}))
    out.append(("piecewise-exponential", [
        {"id": "m", "type": "PiecewiseExponentialCoalescentGridModel", "theta": P("theta", [2.0, 1.0, 3.0]), "growth": P("growth", [0.4, -0.2, 0.3]),
         "grid": [1.0, 2.0], "times": [0.0, 0.0, 0.5, 0.8, 1.1, 1.9, 2.5], "events": [1, 1, 1, 0, 1, 0, 0]}], "m", {"theta": "pos", "growth": "real"}))
    out.append(("piecewise-linear", [
        {"id": "m", "type": "PiecewiseLinearCoalescentGridModel", "theta": P("theta", [2.0, 1.0, 3.0]),
         "grid": [1.0, 2.0], "times": [0.0, 0.0, 0.5, 0.8, 1.1, 1.9, 2.5], "events": [1, 1, 1, 0, 1, 0, 0]}], "m", {"theta": "pos"}))
    ev = zoo.evo_args("t4.fa", "t4.nwk")
    docsr = zoo.cli_json(["advi"] + ev + ["-m", "JC69", "--clock", "strict", "--coalescent", "skyride"])
    out.append(("skyride-on-tree", docsr, "coalescent", {"coalescent.theta.log": "real", "tree.ratios.unres": "real", "tree.root_height.unshifted.unres": "real"}))
    doc = zoo.cli_json(["advi"] + ev + ["-m", "HKY", "-C", "3", "--clock", "strict", "--coalescent", "constant"])
    out.append(("tree-likelihood-hky-g3-strict", doc, "like",
                {"substmodel.kappa.unres": "real", "sitemodel.shape.unres": "real", "branchmodel.rate.unres": "real", "tree.ratios.unres": "real",
                 "tree.root_height.unshifted.unres": "real", "substmodel.frequencies.unres": "real"}))
    out.append(("coalescent-on-tree", doc, "coalescent", {"coalescent.theta.unres": "real", "tree.ratios.unres": "real", "tree.root_height.unshifted.unres": "real"}))
    out.append(("ctmc-scale", doc, "branchmodel.rate.prior", {"branchmodel.rate.unres": "real", "tree.ratios.unres": "real"}))
    doc2 = zoo.cli_json(["advi"] + zoo.evo_args("t4.fa", "t4.nwk", dated=False) + ["-m", "GTR", "-I"])
    out.append(("tree-likelihood-gtr-inv-unrooted", doc2, "like", {"substmodel.rates.unres": "real", "sitemodel.pinv.unres": "real", "tree.blens.unres": "real"}))
    doc3 = zoo.cli_json(["advi"] + zoo.evo_args("t4.fa", "t4.nwk", dated=False) + ["-m", "JC69", "-C", "3", "-I"])
    out.append(("tree-likelihood-jc-g3-inv-unrooted", doc3, "like", {"sitemodel.shape.unres": "real", "sitemodel.pinv.unres": "real", "tree.blens.unres": "real"}))
    return out


def set_params(doc, values):
    from . import zoo
    d = copy.deepcopy(doc)
    for pid, t in values.items():
        js = zoo.find(d, pid)
        for k in list(js):
            if k not in ("id", "type"):
                del js[k]
        js["tensor"] = t
    return d


def subset_class(name, sub):
    """Violation keys name the class of the batched subset (subsets are sampled with the seed)."""
    if name == "normal-joint" and "x" in sub and ({"loc", "scale"} & set(sub)):
        return "x+parameter-of-its-distribution"
    return "+".join(sub)


def check_real_model(ctx: Ctx, name, doc, target, domains, rnd, tier):
    import torch
    from . import zoo
    base_dic = zoo.load(doc, upto="advi")
    base = {pid: base_dic[pid].tensor.detach().tolist() for pid in domains}
    pids = sorted(domains)
    subsets = [s for r in range(1, len(pids) + 1) for s in itertools.combinations(pids, r)]
    if len(subsets) > (10 if tier == "quick" else 40):
        # every parameter batched ALONE is always included (a model that forgets one of its inputs when it infers the sample shape
        # only shows when that input is the sole batched one); the rest is sampled
        singles = [s for s in subsets if len(s) == 1]
        rest = [s for s in subsets if len(s) > 1]
        subsets = singles + rnd.sample(rest, min(len(rest), max(3, (10 if tier == "quick" else 40) - len(singles))))
    # sample sizes that coincide with structural sizes (states 4, categories 3 / 3+1, branches 5 / 6, taxa 4) are where a wrong
    # broadcast stays shape-valid
    for shape in ([2], [3], [4], [2, 3]) if tier == "quick" else ([1], [2], [3], [4], [5], [6], [2, 3], [3, 2], [4, 4], [2, 4], [3, 5]):
        for sub in subsets:
            def perturbed(v, dom, k):
                f = lambda x: (x + 0.13 * (k + 1)) if dom == "real" else x * (1.0 + 0.2 * (k + 1))
                return [f(x) for x in v] if isinstance(v, list) else f(v)
            nsamp = 1
            for s_ in shape:
                nsamp *= s_
            flat = {pid: [perturbed(base[pid], domains[pid], k) for k in range(nsamp)] for pid in sub}

            def reshape(lst):
                t = torch.tensor(lst)
                return t.reshape(shape + list(t.shape[1:])).tolist()
            vals = {pid: reshape(flat[pid]) for pid in sub}
            ctx.add("evaluations")
            ctx.distinct((name, tuple(shape), sub), len(sub) < len(pids))
            try:
                dic = zoo.load(set_params(doc, vals), upto="advi")
                with torch.no_grad():
                    got = dic[target]()
            except Exception as e:
                ctx.add("combinations_raised")
                ctx.cov.setdefault("raised_samples", [])
                if len(ctx.cov["raised_samples"]) < 8:
                    ctx.cov["raised_samples"].append(f"{name} shape {shape} batched {list(sub)}: {type(e).__name__}: {str(e)[:70]}")
                continue
            # the same model as a component of a joint distribution: the joint sums over what the component's sample_shape does not
            # claim, so a model that forgets one of its inputs when it infers the sample shape mixes the samples there and only there
            try:
                from torchtree.distributions.joint_distribution import JointDistributionModel
                if not isinstance(dic[target], JointDistributionModel):
                    with torch.no_grad():
                        gj = JointDistributionModel("verif.joint", [dic[target]])()
                    ctx.add("wrapped_in_joint")
                    if gj.numel() != nsamp:
                        ctx.violation(f"C10:{name}:in-joint:shape:{len(shape)}d:{subset_class(name, sub)}",
                                      f"{name} as the only component of a JointDistributionModel: batched {list(sub)} with sample shape {shape} returns shape "
                                      f"{list(gj.shape)} (the model alone returns {list(got.shape)}, its sample_shape is {list(dic[target].sample_shape)})",
                                      {"model": name, "shape": shape, "batched": list(sub)})
                        continue
                    if got.numel() == nsamp and not torch.allclose(gj.reshape(-1).double(), got.reshape(-1).double(), rtol=1e-10, atol=1e-12):
                        ctx.violation(f"C10:{name}:in-joint:value:{len(shape)}d:{subset_class(name, sub)}",
                                      f"{name} as the only component of a JointDistributionModel: batched {list(sub)} with sample shape {shape} gives "
                                      f"{gj.reshape(-1).tolist()[:4]}, the model alone {got.reshape(-1).tolist()[:4]}", {"model": name, "shape": shape, "batched": list(sub)})
                        continue
            except Exception as e:
                ctx.add("joint_wrap_raised")
            got = got.reshape(-1) if got.numel() == nsamp else got.reshape(nsamp, -1).sum(-1) if got.numel() % nsamp == 0 and got.shape[: len(shape)] == torch.Size(shape) else got
            if got.numel() != nsamp:
                ctx.violation(f"C10:{name}:shape:{len(shape)}d:{subset_class(name, sub)}", f"{name}: batched {list(sub)} with sample shape {shape} returns shape {list(got.shape)}",
                              {"model": name, "shape": shape, "batched": list(sub)})
                continue
            for k in range(nsamp):
                single = {pid: flat[pid][k] for pid in sub}
                d1 = zoo.load(set_params(doc, single), upto="advi")
                with torch.no_grad():
                    want = float(d1[target]().sum())
                if abs(float(got[k]) - want) > 1e-10 * max(1.0, abs(want)):
                    ctx.violation(f"C10:{name}:slice-mismatch:{len(shape)}d:{subset_class(name, sub)}",
                                  f"{name}: parameters {list(sub)} batched with sample shape {shape}: value for sample {k} is {float(got[k])!r}, the {k}-th slices alone give "
                                  f"{want!r}", {"model": name, "shape": shape, "batched": list(sub), "sample": k})
                    break


def run(ctx: Ctx):
    use_src()
    import logging
    logging.disable(logging.CRITICAL)
    rnd = random.Random(ctx.seed + 10)
    triples = [(2, 2, 2), (2, 3, 2), (3, 2, 3)] if ctx.tier == "quick" else [(1, 1, 1), (2, 2, 2), (2, 3, 2), (3, 2, 3), (2, 2, 3), (3, 3, 2), (1, 2, 2), (2, 1, 1)]
    for S, K, n in triples:
        maxc = 2 if ctx.tier == "quick" and (S, K, n) != (2, 2, 2) else 3
        res = run_tlc(S, K, n, maxc, False)
        ctx.tlc(res, f"Joint S={S} K={K} n={n} up to {maxc} components")
        design = {json.dumps(v.trace[-1][1].get("comps"), default=str) for v in res.violations}
        ctx.cov.setdefault("design_level_mixing", []).extend(sorted(design)[:5])
        cases = run_tlc(S, K, n, maxc, True).emitted("CASE")
        if not cases:
            raise Machinery("no combinations emitted")
        step = max(1, len(cases) // (300 if ctx.tier == "quick" else 2000))
        for case in cases[::step]:
            check_stub_case(ctx, case)
        ctx.sample({"S": S, "K": K, "n": n, "case": cases[len(cases) // 2]}, limit=3)
    for name, doc, target, domains in real_models():
        check_real_model(ctx, name, doc, target, domains, rnd, ctx.tier)
    ctx.cov["rule"] = ("stub level: component-kind combinations emitted by TLC, decoded exactly; real models: (model, sample shape, subset of batched parameters) with "
                       "every sample compared with its slice; non-trivial = several components / a strict subset batched")
    ctx.assumptions += ["a combination that raises is acceptable (listed in the evidence); only a returned number that differs from the per-slice value is a violation",
                        "stub payloads: one pass per component with distinct powers of two (exact in float64)"]
