"""C13 - in a model specification every id denotes exactly one shared object.

1. TLC: Loader.tla - Impl (transcription of remove_comments + process_object(s)) = Req
   (the declarative requirement) for every document in the bound; the shipped loader
   (no re-check before registration) is kept as a control that TLC must flag.
2. spec -> code: TLC emits every document with the requirement's verdict, registry,
   reference resolution and the Impl event sequence; each document is rendered with real
   classes (Parameter / CatParameter / ViewParameter / TransformedParameter, comment keys,
   ignore flags), loaded the way torchtree.main does, and compared: accept / reject with
   JSONParseError; registry keys; identity (`is`) of every referenced object; the sequence of
   process_object events; tensors of every object vs an independent evaluator, again after
   updating each leaf through the registry (visibility through every holder).
3. json_factory helpers and plates: fixed scenario families compared with directly
   constructed objects / hand-expanded documents.
"""
from __future__ import annotations

import copy
import hashlib
import json
import math
import re
import shutil
import sys

from . import tlc
from .common import Ctx, Machinery, use_src

LEVEL = "model_checking"
RECHECK = True          # the code re-checks the id before registration (after the fix: commit in known_findings)

CONFIGS = {
    "quick": [
        dict(Depth="3", Depth2="1", Decorated="FALSE", WidthAt="<<2,2,1>>"),
        dict(Depth="2", Depth2="1", Decorated="TRUE", WidthAt="<<2,1>>"),
    ],
    "thorough": [
        dict(Depth="3", Depth2="1", Decorated="FALSE", WidthAt="<<2,2,1>>"),
        dict(Depth="2", Depth2="1", Decorated="TRUE", WidthAt="<<2,1>>"),
        dict(Depth="2", Depth2="2", Decorated="FALSE", WidthAt="<<1,1>>", Ids='{"a","b","c","d"}'),
        dict(Depth="3", Depth2="1", Decorated="FALSE", WidthAt="<<2,1,1>>", Ids='{"a","b","c","d"}'),
        dict(Depth="3", Depth2="1", Decorated="TRUE", WidthAt="<<2,1,1>>"),
        dict(Depth="4", Depth2="1", Decorated="FALSE", WidthAt="<<2,1,1,1>>"),
    ],
}


def run_tlc(cfg, recheck, emit):
    d = tlc.workdir("c13")
    consts = {"Ids": '{"a","b","c"}', "RecheckBeforeRegister": "TRUE" if recheck else "FALSE",
              "Emit": "TRUE" if emit else "FALSE"}
    consts.update(cfg)
    t, c = tlc.write_mc(d, "MC_Loader", "Loader", consts,
                        ["SPECIFICATION Spec", "INVARIANT ImplMeetsReq"])
    res = tlc.run(t, c, workers=1 if emit else 16, coverage=not emit, tag="c13", timeout=1800,
                  extra=["-maxSetSize", "20000000"])
    shutil.rmtree(d, ignore_errors=True)
    return res


# ------------------------------------------------------------------ rendering
def _leafval(path):
    h = int(hashlib.sha1(repr(path).encode()).hexdigest()[:6], 16)
    return 0.5 + (h % 997) / 100.0


def _effective(kids):
    return [k for k in kids if k[0] != "com" and not (k[0] == "obj" and k[1]["ign"])]


FLAVOUR = "param"      # "param": Parameter/Cat/View/Transformed; "taxa": Taxon/Taxa (falsy when empty)


def _kind(node, path):
    eff = _effective(node["kids"])
    if FLAVOUR == "taxa":
        return "cat" if eff else "leaf"
    noncom = [k for k in node["kids"] if k[0] != "com"]
    if not eff:
        return "leaf"
    if len(noncom) == 1:
        return ("cat", "view", "exp")[sum(path) % 3]
    return "cat"


def render_child(c, path):
    """Abstract child -> JSON value (string or dict)."""
    if c[0] == "ref":
        return c[1]
    if c[0] == "com":
        return render_child(c[1], path)
    node = c[1]
    kind = _kind(node, path)
    out = {}
    if node["id"] != "?":
        out["id"] = node["id"]
    if node["ign"]:
        out["ignore"] = True
    ncom = 0
    slots = []
    for i, k in enumerate(node["kids"], 1):
        if k[0] == "com":
            ncom += 1
            out[f"_c{ncom}"] = render_child(k, path + [i])
        else:
            slots.append(render_child(k, path + [i]))
    if kind == "leaf":
        if FLAVOUR == "taxa":
            out["type"] = "Taxon"
        else:
            out["type"] = "Parameter"
            out["tensor"] = [_leafval(path)]
        for j, s in enumerate(slots):
            out[f"extra{j}"] = s          # ignored objects stored as dictionary values
    elif kind == "cat" and FLAVOUR == "taxa":
        out["type"] = "Taxa"
        out["taxa"] = slots
    elif kind == "cat":
        out["type"] = "CatParameter"
        out["parameters"] = slots
    elif kind == "view":
        out["type"] = "ViewParameter"
        out["parameter"] = slots[0]
        out["indices"] = ":"
    else:
        out["type"] = "TransformedParameter"
        out["transform"] = "torch.distributions.ExpTransform"
        out["x"] = slots[0]
    return out


def render(doc):
    return [render_child(c, [i]) for i, c in enumerate(doc, 1)]


# ------------------------------------------------------------------ independent evaluator
def clean(c):
    if c[0] != "obj":
        return c
    n = c[1]
    return ["obj", {"id": n["id"], "ign": False, "kids": [clean(k) for k in _effective(n["kids"])],
                    "_kind": None}]


def index_paths(doc):
    """Map path tuple -> (raw node, kind) for declarations of the *clean* document, with
    clean-path numbering (the numbering Req uses) and the raw path (for kinds / leaf values)."""
    out = {}

    def walk(c, raw_path, clean_path):
        if c[0] != "obj":
            return
        n = c[1]
        out[tuple(clean_path)] = (n, _kind(n, raw_path), list(raw_path))
        j = 0
        for i, k in enumerate(n["kids"], 1):
            if k[0] == "com" or (k[0] == "obj" and k[1]["ign"]):
                continue
            j += 1
            walk(k, raw_path + [i], clean_path + [j])

    j = 0
    for i, c in enumerate(doc, 1):
        if c[0] == "obj" and c[1]["ign"]:
            continue
        j += 1
        walk(c, [i], [j])
    return out


def evaluate(doc, registry, leafvals):
    """Expected tensor (list of floats) of every declared object of an accepted document."""
    idx = index_paths(doc)
    memo = {}

    def val_at(cpath):
        cpath = tuple(cpath)
        if cpath in memo:
            return memo[cpath]
        n, kind, raw = idx[cpath]
        if kind == "leaf":
            v = [leafvals[n["id"]]]
        else:
            parts = []
            j = 0
            for k in n["kids"]:
                if k[0] == "com" or (k[0] == "obj" and k[1]["ign"]):
                    continue
                j += 1
                if k[0] == "ref":
                    parts.append(val_at(registry[k[1]]))
                else:
                    parts.append(val_at(list(cpath) + [j]))
            if kind == "cat":
                v = [x for p in parts for x in p]
            elif kind == "view":
                v = list(parts[0])
            else:
                v = [math.exp(x) for x in parts[0]]
        memo[cpath] = v
        return v

    return {i: val_at(p) for i, p in registry.items()}, idx


# ------------------------------------------------------------------ real loader with event recording
class Recorder:
    def __init__(self):
        import torchtree.core.utils as U
        self.U = U
        self.orig = U.process_object
        self.events = []
        rec = self

        def wrapped(data, dic):
            if isinstance(data, str):
                try:
                    r = rec.orig(data, dic)
                    rec.events.append(["ref", data, "ok"])
                    return r
                except U.JSONParseError:
                    rec.events.append(["ref", data, "notfound"])
                    raise
            if isinstance(data, dict):
                i = data.get("id", "?")
                rec.events.append(["enter", i])
                try:
                    r = rec.orig(data, dic)
                    rec.events.append(["exit", i, "ok"])
                    return r
                except BaseException:
                    rec.events.append(["exit", i, "error"])
                    raise
            return rec.orig(data, dic)

        self.wrapped = wrapped
        self.patched = []
        for m in list(sys.modules.values()):
            if m is None or not getattr(m, "__name__", "").startswith("torchtree"):
                continue
            if getattr(m, "process_object", None) is self.orig:
                setattr(m, "process_object", wrapped)
                self.patched.append(m)

    def close(self):
        for m in self.patched:
            setattr(m, "process_object", self.orig)


def norm_spec_events(ev):
    out = []
    for e in ev:
        if e[0] == "obj":
            out.append(["enter", e[1]])
            out.append(["exit", e[1], "error"])
        elif e[0] == "exit":
            out.append(["exit", e[1], "ok" if e[2] == "ok" else "error"])
        else:
            out.append(list(e))
    return out


def load_real(elements):
    """Load like torchtree.main: remove_comments, expand_plates, process_objects per element."""
    from torchtree.core.utils import JSONParseError, expand_plates, process_objects, remove_comments
    data = copy.deepcopy(elements)
    dic = {}
    try:
        remove_comments(data)
        expand_plates(data)
        for element in data:
            process_objects(element, dic)
        return "accept", dic, None
    except JSONParseError as e:
        return "reject", dic, e
    except Exception as e:  # any other exception type
        return "crash", dic, e


def kids_of(obj):
    import torchtree.core.parameter as P
    if isinstance(obj, P.CatParameter):
        return list(obj._parameter_container.params())
    if isinstance(obj, P.ViewParameter):
        return [obj.parameter]
    if isinstance(obj, P.TransformedParameter):
        return [obj.x]
    from torchtree.evolution.taxa import Taxa
    if isinstance(obj, Taxa):
        return list(obj.data)
    return []


def _dockey(doc):
    return json.dumps(doc, sort_keys=True)


def _shape(doc):
    """Shape of a document with ids abstracted (for violation keys)."""
    s = json.dumps(doc)
    return hashlib.sha1(re.sub(r'"[abcd?]"', '"x"', s).encode()).hexdigest()[:8]


def classify(case):
    """Violation key for a disagreement: names the structural class of the document."""
    doc = case["doc"]
    toks = []

    def walk(c, anc):
        if c[0] == "com":
            return
        if c[0] == "ref":
            toks.append(("ref", c[1], tuple(anc)))
            return
        n = c[1]
        if n["ign"]:
            return
        toks.append(("open", n["id"], tuple(anc)))
        for k in n["kids"]:
            walk(k, anc + [n["id"]])
    for c in doc:
        walk(c, [])
    opens = [t for t in toks if t[0] == "open"]
    if any(t[1] in t[2] for t in opens):
        return "descendant-redeclares-ancestor-id"
    ids = [t[1] for t in opens]
    if len(set(ids)) < len(ids):
        return "duplicate-id"
    if any(t[0] == "ref" and t[1] in t[2] for t in toks):
        return "reference-to-enclosing-object"
    if any(t[0] == "ref" and t[1] not in ids for t in toks):
        return "dangling-reference"
    if "?" in ids:
        return "missing-id"
    return "well-formed"


def check_case(ctx: Ctx, case, rec: Recorder):
    import torch
    doc = case["doc"]
    elements = render(doc)
    rec.events.clear()
    outcome, dic, exc = load_real(elements)
    ctx.add("evaluations")
    cls = classify(case)
    nontrivial = cls != "well-formed" or bool(case["res"])
    ctx.distinct((FLAVOUR, _dockey(doc)), nontrivial)
    want = "accept" if case["accept"] else "reject"
    if outcome != want:
        what = (f"document class '{cls}': requirement says {want}, loader gave {outcome}"
                f"{' (' + type(exc).__name__ + ': ' + str(exc)[:120] + ')' if exc else ''}; json={json.dumps(elements)[:400]}")
        ctx.violation(f"C13:{cls}:expected-{want}-got-{outcome}" + ("" if FLAVOUR == "param" else ":" + FLAVOUR), what,
                      {"doc": doc, "json": elements})
        return
    # event sequence (binds Impl to the code)
    if rec.events != norm_spec_events(case["ev"]):
        ctx.add("event_mismatches")
        ctx.cov.setdefault("event_mismatch_samples", [])
        if len(ctx.cov["event_mismatch_samples"]) < 3:
            ctx.cov["event_mismatch_samples"].append({"doc": doc, "real": list(rec.events), "spec": norm_spec_events(case["ev"])})
    else:
        ctx.add("traces_validated_against_impl")
    if outcome != "accept":
        return
    registry = {k: list(v) for k, v in (case["registry"] or {}).items()}
    if set(dic) != set(registry):
        ctx.violation(f"C13:{cls}:registry-keys", f"registry has {sorted(dic)} expected {sorted(registry)}; json={json.dumps(elements)[:300]}",
                      {"doc": doc, "json": elements})
        return
    leaf_ids = {}
    vals, idx = evaluate(doc, registry, {i: _leafval(idx_raw) for i, idx_raw in
                                        ((n["id"], raw) for (n, kind, raw) in index_paths(doc).values() if kind == "leaf")})
    # identity of referenced objects: walk real objects along the clean structure
    for cpath, (n, kind, raw) in idx.items():
        obj = dic[n["id"]]
        rk = kids_of(obj)
        eff = _effective(n["kids"])
        if kind == "leaf":
            continue
        if len(rk) != len(eff):
            ctx.violation(f"C13:{cls}:child-count", f"object {n['id']} has {len(rk)} children, expected {len(eff)}", {"doc": doc})
            return
        for k, ro in zip(eff, rk):
            tid = k[1] if k[0] == "ref" else k[1]["id"]
            if ro is not dic[tid]:
                ctx.violation(f"C13:{cls}:identity", f"child {tid} of {n['id']} is not the registered object (is-test failed); json={json.dumps(elements)[:300]}",
                              {"doc": doc, "json": elements})
                return
    if FLAVOUR != "param":
        return

    # values, then visibility of updates through every holder
    def compare(tag, leafvals):
        exp, _ = evaluate(doc, registry, leafvals)
        for i, v in exp.items():
            got = dic[i].tensor.detach().reshape(-1).tolist()
            if len(got) != len(v) or any(abs(a - b) > 1e-9 * max(1.0, abs(b)) for a, b in zip(got, v)):
                ctx.violation(f"C13:{cls}:value-{tag}", f"object {i}: tensor {got} expected {v} ({tag}); json={json.dumps(elements)[:300]}",
                              {"doc": doc, "json": elements})
                return False
        return True

    leafvals = {n["id"]: _leafval(raw) for (n, kind, raw) in idx.values() if kind == "leaf"}
    if not compare("initial", leafvals):
        return
    for j, lid in enumerate(sorted(leafvals)):
        leafvals[lid] = 10.0 + j
        try:
            dic[lid].tensor = torch.tensor([leafvals[lid]])
        except Exception as e:
            ctx.violation(f"C13:{cls}:update-raises", f"assigning leaf {lid} raised {type(e).__name__}: {e}", {"doc": doc})
            return
        if not compare("after-update", leafvals):
            return


# ------------------------------------------------------------------ plates and json_factory
def check_plates(ctx: Ctx):
    """expand_plates (range / var / *) composed with the loader = hand-expanded document."""
    cases = []
    for rng, n0, n1 in (("0:2", 0, 2), ("1:3", 1, 3), ("0:1", 0, 1)):
        for style in ("star", "var"):
            for trailing in ([], ["p0"], ["cat"]):
                pid = "p*" if style == "star" else "p${i}"
                plate = {"id": "plate", "type": "Plate", "range": rng,
                         "object": {"id": pid, "type": "Parameter", "tensor": [1.0, 2.0]}}
                if style == "var":
                    plate["var"] = "i"
                doc = [{"id": "cat", "type": "CatParameter", "parameters": [plate]}] + list(trailing)
                hand = [{"id": "cat", "type": "CatParameter",
                         "parameters": [{"id": f"p{k}", "type": "Parameter", "tensor": [1.0, 2.0]} for k in range(n0, n1)]}] + list(trailing)
                cases.append((doc, hand))
    # duplicate produced by a plate: plate ids collide with an existing id -> must be rejected
    dup = [{"id": "p0", "type": "Parameter", "tensor": [0.0]},
           {"id": "cat", "type": "CatParameter", "parameters": [
               {"id": "plate", "type": "Plate", "range": "0:2", "object": {"id": "p*", "type": "Parameter", "tensor": [1.0]}}]}]
    for doc, hand in cases:
        o1, d1, e1 = load_real(doc)
        o2, d2, e2 = load_real(hand)
        ctx.add("evaluations")
        ctx.distinct(("plate", _dockey(doc)))
        same = o1 == o2 and set(d1) == set(d2)
        if same and o1 == "accept":
            same = all(d1[k].tensor.tolist() == d2[k].tensor.tolist() for k in d1)
        if not same:
            ctx.violation("C13:plate:expansion", f"plate document loads differently from its hand expansion: {o1}/{sorted(d1)} vs {o2}/{sorted(d2)}; json={json.dumps(doc)[:300]}",
                          {"json": doc})
    o, d, e = load_real(dup)
    ctx.add("evaluations")
    if o != "reject":
        ctx.violation("C13:plate:duplicate-id", f"plate expansion colliding with an existing id gave {o}", {"json": dup})


def check_factories(ctx: Ctx):
    """json_factory output loads into objects that evaluate like directly constructed ones."""
    import torch
    from torchtree.core.parameter import Parameter, ViewParameter
    from torchtree.core.utils import process_object
    from torchtree.distributions.distributions import Distribution
    n = 0
    for kw, direct in (
        (dict(tensor=[1.0, 2.0, 3.0]), torch.tensor([1.0, 2.0, 3.0])),
        (dict(full=[2, 3], tensor=0.5), torch.full((2, 3), 0.5)),
        (dict(zeros=[3]), torch.zeros(3)),
        (dict(ones=[2, 2]), torch.ones(2, 2)),
        (dict(eye=3), torch.eye(3)),
        (dict(tensor=[1.0, 2.0], dtype="torch.float32"), torch.tensor([1.0, 2.0], dtype=torch.float32)),
    ):
        js = Parameter.json_factory("p", **kw)
        dic = {}
        obj = process_object(js, dic)
        n += 1
        ctx.add("evaluations")
        ctx.distinct(("factory", json.dumps(js, sort_keys=True)))
        if obj.tensor.shape != direct.shape or obj.tensor.dtype != direct.dtype or not torch.equal(obj.tensor, direct):
            ctx.violation("C13:json_factory:Parameter", f"Parameter.json_factory({kw}) loads to {obj.tensor} expected {direct}", {"json": js})
    # like-variants referring to another parameter by id
    dic = {}
    process_object(Parameter.json_factory("base", tensor=[1.0, 2.0, 3.0]), dic)
    for kw, direct in ((dict(full_like="base", tensor=2.0), torch.full((3,), 2.0)),
                       (dict(zeros_like="base"), torch.zeros(3)), (dict(ones_like="base"), torch.ones(3))):
        js = Parameter.json_factory("q" + str(n), **kw)
        obj = process_object(js, dic)
        n += 1
        ctx.add("evaluations")
        ctx.distinct(("factory", json.dumps(js, sort_keys=True)))
        if not torch.equal(obj.tensor, direct.to(obj.tensor.dtype)):
            ctx.violation("C13:json_factory:Parameter-like", f"{kw} loads to {obj.tensor} expected {direct}", {"json": js})
    # ViewParameter factory: shares the base object
    js = ViewParameter.json_factory("v", "base", "1:3")
    v = process_object(js, dic)
    ctx.add("evaluations")
    direct = ViewParameter(None, dic["base"], slice(1, 3))
    if v.parameter is not dic["base"] or not torch.equal(v.tensor, direct.tensor):
        ctx.violation("C13:json_factory:ViewParameter", f"view factory: {v.tensor} vs {direct.tensor}", {"json": js})
    dic["base"].tensor = torch.tensor([5.0, 6.0, 7.0])
    if v.tensor.tolist() != [6.0, 7.0]:
        ctx.violation("C13:json_factory:ViewParameter-visibility", f"update of base not seen through view: {v.tensor}", {"json": js})
    # Distribution factory vs direct construction
    x = Parameter.json_factory("x", tensor=[0.3, 1.5])
    js = Distribution.json_factory("d", "torch.distributions.Normal", x,
                                   {"loc": Parameter.json_factory("loc", tensor=[0.1]),
                                    "scale": Parameter.json_factory("scale", tensor=[2.0])})
    dic = {}
    d = process_object(js, dic)
    ctx.add("evaluations")
    ctx.distinct(("factory", "Distribution"))
    want = torch.distributions.Normal(torch.tensor([0.1]), torch.tensor([2.0])).log_prob(torch.tensor([0.3, 1.5])).sum()
    got = d()
    if abs(float(got.sum()) - float(want)) > 1e-12:
        ctx.violation("C13:json_factory:Distribution", f"Distribution factory evaluates to {got} expected {want}", {"json": js})
    if d.x is not dic["x"]:
        ctx.violation("C13:json_factory:Distribution-identity", "x of the distribution is not the registered object", {"json": js})
    # an object inlined under full_like / zeros_like / ones_like is an object like any other: registered, shared, duplicate-checked
    for key in ("full_like", "zeros_like", "ones_like"):
        js3 = {"id": "holder", "type": "Parameter", key: {"id": "tmpl", "type": "Parameter", "tensor": [1.0, 2.0, 3.0]}}
        if key == "full_like":
            js3["tensor"] = 2.0
        dic3 = {}
        ctx.add("evaluations")
        ctx.distinct(("factory", "inlined-" + key))
        try:
            process_object(js3, dic3)
            v3 = process_object(ViewParameter.json_factory("vt", "tmpl", "0:2"), dic3)
            if "tmpl" not in dic3 or v3.parameter is not dic3["tmpl"]:
                ctx.violation("C13:inlined-like:not-registered", f"the parameter inlined under {key} is not the registered object of its id", {"json": js3})
        except Exception as e:
            ctx.violation("C13:inlined-like:not-registered", f"a reference to the parameter inlined under {key} is rejected: {type(e).__name__}: {str(e)[:100]}", {"json": js3})
            continue
        try:
            process_object({"id": "tmpl", "type": "Parameter", "tensor": [7.0]}, dic3)
            ctx.violation("C13:inlined-like:duplicate-accepted", f"the id of the parameter inlined under {key} can be defined again", {"json": js3})
        except Exception:
            pass
    # a type name denotes one class whatever was loaded before: short (registered) names after full-path look-ups of
    # classes with the same final component
    from torchtree.core import utils as U
    before = dict(U.REGISTERED_CLASSES)
    for full in ("torch.distributions.Normal", "torch.distributions.LogNormal", "torch.distributions.MultivariateNormal", "torch.distributions.Gamma",
                 "torchtree.core.parameter.Parameter", "torchtree.distributions.distributions.Distribution"):
        try:
            U.get_class(full)
        except Exception:
            pass
    ctx.add("evaluations")
    ctx.distinct(("factory", "type-names"))
    rebound = sorted(k for k, v in before.items() if U.REGISTERED_CLASSES.get(k) is not v)
    if rebound:
        ctx.violation("C13:type-name-rebound", f"after full-path look-ups the registered short names {rebound[:5]} denote other classes: "
                      f"{[str(U.REGISTERED_CLASSES.get(k)) for k in rebound[:3]]}", {"names": rebound})
    for short in ("Normal",):
        if short in before:
            js2 = {"id": "dn", "type": "Distribution", "distribution": short, "x": Parameter.json_factory("xn", tensor=[0.3, 1.5]),
                   "parameters": {"loc": Parameter.json_factory("ln", tensor=[0.1]), "precision": Parameter.json_factory("pn", tensor=[4.0])}}
            try:
                got2 = float(process_object(js2, {})().sum())
                cls = torch.distributions.Normal if short == "Normal" else torch.distributions.LogNormal
                want2 = float(cls(torch.tensor([0.1]), torch.tensor([0.5])).log_prob(torch.tensor([0.3, 1.5])).sum())
                if abs(got2 - want2) > 1e-12:
                    ctx.violation(f"C13:short-name:{short}", f"'{short}' with a precision evaluates to {got2}, expected {want2}", {"json": js2})
            except Exception as e:
                ctx.violation(f"C13:short-name:{short}", f"'{short}' with a precision does not load / evaluate after full-path look-ups: {type(e).__name__}: {str(e)[:100]}", {"json": js2})


def run(ctx: Ctx):
    use_src()
    import logging
    import time
    logging.disable(logging.CRITICAL)
    cfgs = CONFIGS[ctx.tier]
    ctx.assumptions += [
        "documents rendered with Parameter/CatParameter/ViewParameter/TransformedParameter only; other classes' from_json orders are not enumerated here (C19 loads the CLI's documents)",
        "error kind is not compared, only JSONParseError vs acceptance vs other exception types",
    ]
    # control: the shipped loader (no re-check) must be flagged by TLC
    ctl = run_tlc(cfgs[0], False, False)
    ctx.tlc(ctl, "control: Loader RecheckBeforeRegister=FALSE (as shipped at the pinned commit)")
    if not any(v.name == "ImplMeetsReq" for v in ctl.violations):
        raise Machinery("control failed: TLC does not flag the loader without re-check")
    rec = Recorder()
    try:
        for cfg in cfgs:
            t0 = time.time()
            res = em = run_tlc(cfg, RECHECK, True)
            ctx.tlc(res, f"Loader {cfg}")
            if res.violations:
                ctx.cov["design_level_violations"] = [str(res.violations[0].trace[-1][1].get("doc"))[:300]]
            cases = em.emitted("CASE")
            print(f"emitted {len(cases)} cases in {time.time() - t0:.1f}s", flush=True)
            t0 = time.time()
            if len(cases) != res.distinct // 2:
                raise Machinery(f"emission incomplete: {len(cases)} cases for {res.distinct} states")
            for k, case in enumerate(cases):
                if k % 997 == 0:
                    ctx.sample({"doc": case["doc"], "accept": case["accept"], "json": render(case["doc"])}, limit=4)
                check_case(ctx, case, rec)
            global FLAVOUR
            FLAVOUR = "taxa"
            try:
                for case in cases:
                    check_case(ctx, case, rec)
            finally:
                FLAVOUR = "param"
            print(f"replayed in {time.time() - t0:.1f}s", flush=True)
    finally:
        rec.close()
    check_plates(ctx)
    check_factories(ctx)
    if ctx.cov.get("event_mismatches"):
        print(f"MODEL-DRIFT: {ctx.cov['event_mismatches']} documents load with a process_object event sequence different from Loader.tla's Impl")
        ctx.notes.append("MODEL-DRIFT: process_object event sequences differ from Impl (outcomes are judged against Req regardless)")
    ctx.cov.setdefault("traces_validated_against_impl", 0)
    ctx.cov["exhaustive"] = True
    # growth of the specification: plate expansion (Plates.tla) - runs before the loader and produces the ids it sees
    from . import plates
    plates.check(ctx, ctx.tier == "quick")
    plates.check_main_pipeline(ctx)
    ctx.cov["rule"] = ("every document of the TLC-enumerated bound (ids a,b,c; nesting depth and widths per config) is loaded by the real loader; "
                       "non-trivial = ill-formed (duplicate/dangling/missing id/ancestor re-declaration) or containing at least one resolved reference")
