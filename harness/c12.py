"""C12 - gradients are the derivatives of the reported densities.

What TLA+ decides and what it does not (see DESIGN.md 4/C12): GradFlow.tla (the object graph of C11's
ModelGraph extraction, reachability computed and checked by TLC) decides the structural half - every
raw parameter that numerically influences a density lies on a data-flow path to it (binding) and
receives a gradient from it (property: nothing influential is left without gradient).  The numerical
half - autograd gradient = derivative of the returned value - is decided here, outside TLA+, by
Richardson-extrapolated central differences of the implementation's own value (which is what the
property states), coordinate by coordinate, for every callable of configurations emitted by the real
CLI (tree likelihoods with every substitution / site / clock model that loads, node-height transforms,
coalescents, birth-death, GMRF, CTMC scale, branch-length priors, Jacobian terms, joints), at random
interior points of the unconstrained space, with and without rescaling.
"""
from __future__ import annotations

import math
import os
import random
import shutil

from . import tlc, zoo
from .common import Ctx, Machinery, use_src

LEVEL = "other"


def configs(tier):
    ev, ev6 = zoo.evo_args("t4.fa", "t4.nwk"), zoo.evo_args()
    un = zoo.evo_args("t4.fa", "t4.nwk", dated=False)
    c = [
        ("hky-g3-strict-constant", ev + ["-m", "HKY", "-C", "3", "--clock", "strict", "--coalescent", "constant"]),
        ("gtr-inv-ucln-skyride", ev + ["-m", "GTR", "-I", "--clock", "ucln", "--coalescent", "skyride"]),
        ("jc-unrooted-gammadir", un + ["-m", "JC69", "--brlenspr", "gammadir"]),
        ("hky-shift-skygrid", ev + ["-m", "HKY", "--clock", "strict", "--heights", "shift", "--coalescent", "skygrid", "--grid", "3", "--cutoff", "5"]),
        ("hky-bdsk", ev6 + ["-m", "HKY", "--clock", "strict", "--birth-death", "bdsk", "--grid", "2"]),
        ("k80-g2-inv-unrooted", un + ["-m", "K80", "-C", "2", "-I"]),
        ("jc-piecewise-linear", ev6 + ["-m", "JC69", "--clock", "strict", "--coalescent", "piecewise-linear", "--grid", "3", "--cutoff", "6"]),
    ]
    if tier == "thorough":
        c += [
            ("sym-exponential", ev + ["-m", "SYM", "--clock", "strict", "--coalescent", "exponential"]),
            ("hky-horseshoe-skyglide", ev6 + ["-m", "HKY", "--clock", "horseshoe", "--coalescent", "skyglide", "--grid", "3", "--cutoff", "6"]),
            ("jc-piecewise-exponential", ev6 + ["-m", "JC69", "--clock", "strict", "--coalescent", "piecewise-exponential", "--grid", "3", "--cutoff", "6"]),
            ("jc-piecewise-constant", ev6 + ["-m", "JC69", "--clock", "strict", "--coalescent", "piecewise-constant", "--grid", "3", "--cutoff", "6"]),
            ("hky-constant-bd", ev6 + ["-m", "HKY", "--clock", "strict", "--birth-death", "constant"]),
            ("srd06-constant", zoo.evo_args("t4c.fa", "t4.nwk") + ["-m", "SRD06", "--clock", "strict", "--coalescent", "constant"]),
            ("gtr-g4-unrooted", un + ["-m", "GTR", "-C", "4"]),
            ("hky-skyride-integrated", ev + ["-m", "HKY", "--clock", "strict", "--coalescent", "skyride", "--gmrf_integrated"]),
            ("hky-skygrid-noncentered", ev + ["-m", "HKY", "--clock", "strict", "--coalescent", "skygrid", "--grid", "3", "--cutoff", "5", "--coalescent_non_centered"]),
            ("hky-tipstates-ambig", ev + ["-m", "HKY", "-C", "2", "--clock", "strict", "--coalescent", "constant", "--use_tip_states"]),
            ("hky-ratio-jacobian", ev + ["-m", "HKY", "--clock", "strict", "--coalescent", "constant", "--include_jacobian"]),
            ("t6-gtr-g4-ucln-constant", ev6 + ["-m", "GTR", "-C", "4", "--clock", "ucln", "--coalescent", "constant"]),
        ]
    return [(n, ["hmc"] + a + ["--stem", "x"]) for n, a in c]


def callables(dic):
    from torchtree.core.model import CallableModel
    from torchtree.core.parameter import TransformedParameter
    out = {}
    for k, o in dic.items():
        if isinstance(o, (CallableModel, TransformedParameter)):
            out[str(k)] = o
    return out


def tree_likelihoods(dic):
    from torchtree.evolution.tree_likelihood import TreeLikelihoodModel
    return [o for o in dic.values() if isinstance(o, TreeLikelihoodModel)]


def set_point(raws, point, grad):
    for pid, p in raws.items():
        t = point[pid].clone().detach()
        if grad:
            t.requires_grad_(True)
        p.tensor = t


def values(dens, order):
    return {k: dens[k]().sum() for k in order}


def explore(ctx: Ctx, name, doc, rnd, npoints, rescale):
    """Returns (num_infl, grad_infl) per density (sets of raw parameter ids)."""
    import torch
    dic = zoo.load(doc, upto="hmc")
    hmc = zoo.find(doc, "hmc")
    raw_ids = []
    for op in hmc["operators"]:
        ps = op["parameters"]
        for q in ([ps] if isinstance(ps, str) else ps):
            q = q if isinstance(q, str) else q["id"]
            if q not in raw_ids:
                raw_ids.append(q)
    raws = {pid: dic[pid] for pid in raw_ids}
    dens = callables(dic)
    if rescale:
        for tl in tree_likelihoods(dic):
            tl.rescale = True
    base = {pid: p.tensor.detach().clone() for pid, p in raws.items()}
    num_infl = {k: set() for k in dens}
    grad_infl = {k: set() for k in dens}
    tag = name + (":rescaled" if rescale else "")
    for pt in range(npoints):
        g = torch.Generator().manual_seed(rnd.randrange(1 << 30))
        point = {pid: base[pid] + 0.3 * torch.randn(base[pid].shape, generator=g, dtype=base[pid].dtype) for pid in raw_ids}
        order = list(dens)
        rnd.shuffle(order)
        # autograd
        set_point(raws, point, True)
        leaves = [raws[pid].tensor for pid in raw_ids]
        auto, val0 = {}, {}
        for k in order:
            try:
                v = dens[k]().sum()
            except Exception as e:
                ctx.violation(f"C12:{name}:{k}:raises", f"{tag}: evaluating {k} at an interior point raises {type(e).__name__}: {str(e)[:100]}",
                              {"config": name, "density": k})
                return num_infl, grad_infl
            val0[k] = float(v.detach())
            if not v.requires_grad:
                auto[k] = [None] * len(leaves)
                continue
            try:
                auto[k] = torch.autograd.grad(v, leaves, retain_graph=True, allow_unused=True)
            except RuntimeError as e:
                ctx.violation(f"C12:{name}:{k}:backward-raises", f"{tag}: back-propagating from {k} raises {type(e).__name__}: {str(e)[:120]}", {"config": name, "density": k})
                return num_infl, grad_infl
        if not all(math.isfinite(x) for x in val0.values()):
            ctx.add("points_skipped_nonfinite_value")
            continue
        # numerical derivative, coordinate by coordinate, every density in the same pass
        h = 1e-4
        for li, pid in enumerate(raw_ids):
            n = point[pid].numel()
            for ci in range(n):
                def at(delta):
                    q = dict(point)
                    t = point[pid].clone().reshape(-1)
                    t[ci] += delta
                    q[pid] = t.reshape(point[pid].shape)
                    set_point(raws, q, False)
                    with torch.no_grad():
                        return {k: float(dens[k]().sum()) for k in order}
                fp, fm, fp2, fm2 = at(h), at(-h), at(h / 2), at(-h / 2)
                for k in order:
                    d1 = (fp[k] - fm[k]) / (2 * h)
                    d2 = (fp2[k] - fm2[k]) / h
                    num = (4 * d2 - d1) / 3
                    err = abs(d2 - d1)
                    ga = auto[k][li]
                    a = None if ga is None else float(ga.reshape(-1)[ci])
                    ctx.add("derivatives_compared")
                    scale = max(1.0, abs(num))
                    if not math.isfinite(num):
                        ctx.add("coordinates_skipped_nonfinite_value")
                        continue
                    if err > 1e-3 * scale:
                        ctx.add("coordinates_skipped_not_smooth")      # an event-order change inside the stencil
                        continue
                    if abs(num) > 1e-6:
                        num_infl[k].add(pid)
                    if a is not None and a != 0.0 and math.isfinite(a):
                        grad_infl[k].add(pid)
                    rep = {"config": name, "rescale": rescale, "density": k, "parameter": pid, "coordinate": ci,
                           "point": {q: point[q].tolist() for q in raw_ids}, "autograd": a, "numerical": num}
                    if abs(num) > 1e-6 and (a is None or a == 0.0):
                        ctx.violation(f"C12:{name}:{k}:{pid}:missing", f"{tag}: d {k} / d {pid}[{ci}] is {num:.8g} numerically, back-propagation gives "
                                      f"{'no gradient' if a is None else 'zero'}", rep)
                    elif a is not None and not math.isfinite(a):
                        ctx.violation(f"C12:{name}:{k}:{pid}:nonfinite", f"{tag}: d {k} / d {pid}[{ci}] is {num:.8g} numerically, back-propagation gives {a}", rep)
                    elif a is not None and abs(a - num) > 2e-6 * max(scale, abs(a)) + 20 * err:
                        ctx.violation(f"C12:{name}:{k}:{pid}:mismatch", f"{tag}: d {k} / d {pid}[{ci}]: back-propagation gives {a:.10g}, the numerical derivative "
                                      f"of the returned value is {num:.10g}", rep)
        set_point(raws, point, False)
    return num_infl, grad_infl, dic, raw_ids, dens


def big_case(ctx: Ctx, rnd, n, kind, tip_states, ncoords):
    """Tree likelihoods large enough to underflow: the evaluation that first detects the underflow (rescale still
    off: the 'safe' kernel reuses the partials of the failed pass), the rescaled kernel, and - for small n - the plain one."""
    import torch
    from . import c03

    def mixed(names):
        r = random.Random(7)
        return {nm: "".join(r.choice("ACGT") for _ in range(5)) + "A" for nm in names}
    dic = c03.build(kind, n, mixed, rnd, tip_states, subst="HKY", site="weibull4", bl=0.1)
    like = dic["like"]
    raws = {"bl": dic["bl"], "sh": dic["sh"], "k": dic["k"]}
    g = torch.Generator().manual_seed(rnd.randrange(1 << 30))
    point = {"bl": dic["bl"].tensor.detach() * torch.exp(0.3 * torch.randn(dic["bl"].tensor.shape, generator=g, dtype=torch.float64)),
             "sh": dic["sh"].tensor.detach() * 1.3, "k": dic["k"].tensor.detach() * 0.8}
    coords = [("sh", 0), ("k", 0)] + [("bl", i) for i in rnd.sample(range(point["bl"].numel()), min(ncoords, point["bl"].numel()))]

    def value(pt):
        set_point(raws, pt, False)
        with torch.no_grad():
            return float(like().sum())
    for mode in ("first-detection", "rescaled"):
        like.rescale = mode == "rescaled"
        set_point(raws, point, True)
        v = like().sum()
        regime = "plain" if not like.rescale else mode
        tag = f"big-{kind}-{n}-{'states' if tip_states else 'partials'}:{regime}"
        ctx.add("evaluations")
        ctx.distinct(tag, True)
        ctx.cov.setdefault("regimes", {}).setdefault(regime, 0)
        ctx.cov["regimes"][regime] += 1
        if not math.isfinite(float(v.detach())):
            ctx.add("points_skipped_nonfinite_value")
            continue
        grads = torch.autograd.grad(v, [raws[k].tensor for k in ("bl", "sh", "k")], allow_unused=True)
        gd = dict(zip(("bl", "sh", "k"), grads))
        h = 1e-4
        for pid, ci in coords:
            def at(delta):
                q = dict(point)
                t = point[pid].clone().reshape(-1)
                t[ci] += delta
                q[pid] = t.reshape(point[pid].shape)
                return value(q)
            d1 = (at(h) - at(-h)) / (2 * h)
            d2 = (at(h / 2) - at(-h / 2)) / h
            num, err = (4 * d2 - d1) / 3, abs(d2 - d1)
            a = None if gd[pid] is None else float(gd[pid].reshape(-1)[ci])
            ctx.add("derivatives_compared")
            scale = max(1.0, abs(num))
            rep = {"case": tag, "parameter": pid, "coordinate": ci, "autograd": a, "numerical": num}
            if err > 1e-3 * scale or not math.isfinite(num):
                ctx.add("coordinates_skipped_not_smooth")
            elif a is None or not math.isfinite(a) or abs(a - num) > 2e-6 * max(scale, abs(a)) + 20 * err:
                ctx.violation(f"C12:big:{regime}:{'states' if tip_states else 'partials'}:{pid}", f"{tag}: d like / d {pid}[{ci}]: back-propagation gives {a}, the numerical "
                              f"derivative of the returned value is {num:.10g}", rep)
                break
        ctx.add("traces_validated_against_impl")


def check_transform_gradients(ctx: Ctx, rnd):
    """Gradient of every log-Jacobian term with respect to its argument, for unbatched and batched arguments ([N], [1, N], [3, N]):
    back-propagation through TransformedParameter.__call__ against central differences."""
    import torch
    from torchtree.core.parameter import Parameter, TransformedParameter
    from torchtree.core.utils import process_object
    specs = [("torch.distributions.ExpTransform", {}, "real"), ("torch.distributions.SigmoidTransform", {}, "real"),
             ("torch.distributions.StickBreakingTransform", {}, "real"), ("CumSumExpTransform", {}, "real"),
             ("torchtree.distributions.transforms.CumSumSoftPlusTransform", {}, "real"), ("torchtree.distributions.transforms.SoftPlusTransform", {}, "real"), ("LogTransform", {}, "pos"),
             ("torch.distributions.AffineTransform", {"loc": 0.3, "scale": 2.5}, "real")]
    for tr, params, dom in specs:
        for shape in ([4], [1, 4], [3, 4]):
            g = torch.Generator().manual_seed(rnd.randrange(1 << 30))
            x0 = torch.randn(shape, generator=g, dtype=torch.float64) * 0.7
            if dom == "pos":
                x0 = x0.exp()
            js = {"id": "y", "type": "TransformedParameter", "transform": tr, "x": {"id": "x", "type": "Parameter", "tensor": x0.tolist()}}
            if params:
                js["parameters"] = params
            try:
                dic = {}
                y = process_object(js, dic)
                xp = dic["x"]
                xp.tensor = x0.clone().requires_grad_(True)
                val = y().sum()
                ga = torch.autograd.grad(val, [xp.tensor], allow_unused=True)[0] if val.requires_grad else None
            except Exception as e:
                ctx.note(f"transform {tr} shape {shape}: not checked ({type(e).__name__}: {str(e)[:80]})")
                continue
            ctx.add("transform_gradient_cases")
            h = 1e-5
            num = torch.zeros_like(x0)
            flat = x0.reshape(-1)
            for i in range(flat.numel()):
                def f(delta):
                    t = flat.clone()
                    t[i] += delta
                    xp.tensor = t.reshape(shape)
                    with torch.no_grad():
                        return float(y().sum())
                num.reshape(-1)[i] = (f(h) - f(-h)) / (2 * h)
            xp.tensor = x0
            name = tr.split(".")[-1]
            if ga is None:
                if float(num.abs().max()) > 1e-6:
                    ctx.violation(f"C12:transform:{name}:missing", f"{name} with argument of shape {shape}: the log-Jacobian has derivative {num.reshape(-1)[:4].tolist()} "
                                  "numerically but carries no gradient", {"transform": tr, "shape": shape})
                continue
            if float((ga - num).abs().max()) > 1e-5 * max(1.0, float(num.abs().max())):
                ctx.violation(f"C12:transform:{name}:mismatch", f"{name} with argument of shape {shape}: gradient of the log-Jacobian {ga.reshape(-1)[:4].tolist()}, "
                              f"numerical derivative {num.reshape(-1)[:4].tolist()}", {"transform": tr, "shape": shape})


def run_gradflow(ctx: Ctx, name, dic, raw_ids, dens, num_infl, grad_infl):
    from .graph import Graph
    g = Graph(dic)
    names = sorted(g.nodes)
    nm = {id(o): n for n, o in g.nodes.items()}
    dn = {k: nm[id(o)] for k, o in dens.items() if id(o) in nm}
    rn = {pid: nm[id(dic[pid])] for pid in raw_ids if id(dic[pid]) in nm}
    q = tlc.tla
    d = tlc.workdir("c12")
    consts = {
        "Nodes": q(set(names)), "Inputs": "[n \\in c_Nodes |-> CASE " + " [] ".join(f"n = {q(n)} -> {q(set(g.inputs[n]))}" for n in names) + "]",
        "Raw": q(set(rn.values())), "Dens": q(set(dn.values())),
        "NumInfl": "[x \\in c_Dens |-> CASE " + " [] ".join(f"x = {q(dn[k])} -> {q({rn[p] for p in num_infl[k] if p in rn})}" for k in dn) + "]",
        "GradInfl": "[x \\in c_Dens |-> CASE " + " [] ".join(f"x = {q(dn[k])} -> {q({rn[p] for p in grad_infl[k] if p in rn})}" for k in dn) + "]",
    }
    t, c = tlc.write_mc(d, "MC_GradFlow", "GradFlow", consts,
                        ["SPECIFICATION Spec", "INVARIANT Sound", "INVARIANT NoPhantom", "INVARIANT NoMissing", "INVARIANT TypeOK", "CHECK_DEADLOCK FALSE"])
    res = tlc.run(t, c, workers=4, cont=True, tag="c12", timeout=600)
    shutil.rmtree(d, ignore_errors=True)
    ctx.tlc(res, f"GradFlow {name}: {len(names)} nodes, {len(dn)} densities, {len(rn)} raw parameters")
    names_of = {v.name for v in res.violations}
    if "NoMissing" in names_of:
        for k in dn:
            for p in sorted(num_infl.get(k, set()) - grad_infl.get(k, set())):
                ctx.violation(f"C12:{name}:{k}:{p}:missing", f"{name}: {p} influences {k} numerically but never receives a gradient from it (GradFlow.NoMissing)",
                              {"config": name, "density": k, "parameter": p})
    for other in sorted(names_of - {"NoMissing"}):
        ctx.note(f"MODEL-DRIFT bind:{other} {name}: a measured influence is not along the extracted data-flow graph")
        ctx.add("model_drift")


def run(ctx: Ctx):
    use_src()
    import logging
    logging.disable(logging.CRITICAL)
    rnd = random.Random(ctx.seed + 12)
    quick = ctx.tier == "quick"
    for name, argv in configs(ctx.tier):
        try:
            doc = zoo.cli_json(argv)
            zoo.load(doc, upto="hmc")
        except Exception as e:
            ctx.note(f"configuration {name} does not load ({type(e).__name__}: {str(e)[:80]}); that is C19's subject, skipped here")
            ctx.add("configurations_skipped")
            continue
        merged_n, merged_g = None, None
        for rescale in (False, True):
            out = explore(ctx, name, doc, rnd, 1 if quick else 3, rescale)
            if len(out) == 2:
                continue
            num_infl, grad_infl, dic, raw_ids, dens = out
            ctx.add("evaluations")
            ctx.distinct((name, rescale), True)
            if merged_n is None:
                merged_n, merged_g = num_infl, grad_infl
            else:
                for k in num_infl:
                    merged_n[k] |= num_infl[k]
                    merged_g[k] |= grad_infl[k]
        if merged_n is not None:
            run_gradflow(ctx, name, dic, raw_ids, dens, merged_n, merged_g)
            ctx.add("traces_validated_against_impl")
            ctx.cov.setdefault("densities", {})[name] = sorted(dens)
            ctx.sample({"configuration": name, "argv": argv[5:], "densities": len(dens), "raw_parameters": raw_ids,
                        "influences": {k: sorted(v) for k, v in list(merged_n.items())[:3]}}, limit=4)
    check_transform_gradients(ctx, rnd)
    for n, kind, tip_states in ([(24, "balanced", False), (800, "balanced", False), (800, "random", True)] if quick else
                                [(24, "balanced", False), (24, "random", True), (420, "balanced", False), (800, "balanced", False), (800, "random", True),
                                 (1000, "random", False), (500, "caterpillar", False), (1200, "balanced", True)]):
        big_case(ctx, rnd, n, kind, tip_states, 6 if quick else 16)
    if not ctx.cov.get("regimes", {}).get("first-detection"):
        raise Machinery("no large tree likelihood reached the underflow-detection path")
    ctx.cov["explanation"] = ("autograd gradients of every callable of CLI-emitted configurations (and of large tree likelihoods in the plain / underflow-detection / "
                              "rescaled regimes) compared coordinate by coordinate with Richardson-extrapolated central differences of the returned value; GradFlow.tla "
                              "(TLC) judges the measured influence relations: every numerically influential raw parameter is reachable along the extracted data flow "
                              "and receives a gradient")
    ctx.cov["rule"] = ("one evaluation = one (configuration, rescaling) pass: every callable x every coordinate of every raw parameter at random interior points; "
                       "coordinates whose two stencils disagree (event-order change inside the stencil) are skipped and counted")
    ctx.assumptions += ["the equality of gradient and derivative is decided numerically (Richardson central differences, h = 1e-4, tolerance 2e-6 relative + 20 x stencil "
                        "disagreement); TLA+ (GradFlow.tla) decides only the structural half",
                        "points are random in the unconstrained space, so ties between event times have probability zero; non-smooth coordinates are skipped"]
