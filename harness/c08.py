"""C08 - coalescent priors equal the Kingman density of their demographic function.

1. TLC: Coalescent.tla - for every input of the lattice (sampling times with ties, valid
   coalescent times, grids before the first coalescence / beyond the root / on event times) and
   every admissible order of the unstable sort, the code's bookkeeping (running lineage count,
   piece index, slicing) gives the Kingman integral, log terms and per-piece sufficient
   statistics of the definition; exact rationals with population sizes 2^(j+1).
2. spec -> code: emitted cases through ConstantCoalescent, PiecewiseConstantCoalescent,
   PiecewiseConstantCoalescentGrid (soft variant with temperature None), the JSON model classes
   (tree-less times/events data form), with the node heights supplied in several orders and
   batched; equivalences (all pieces equal = constant) and the scaling law on the implementation.
3. Non-constant demographies (exponential, piecewise-linear, piecewise-exponential) and random
   real-valued inputs up to 50 taxa: Kingman density by numerical quadrature of 1/N(t) for the
   N(t) each class documents, over the interval table of a transliteration validated against TLC.
"""
from __future__ import annotations

import json
import math
import random
import shutil
from fractions import Fraction

import mpmath

from . import tlc
from .common import Ctx, Machinery, use_src

LEVEL = "model_checking"

PLANS = {
    "quick": [(3, "constant", "{{}}", "0..2", "1..5"), (3, "skyride", "{{}}", "0..2", "1..5"),
              (3, "skygrid", "{{},{1},{2},{4},{1,3},{2,5},{6},{1,2,7}}", "0..2", "1..5"),
              (4, "skyride", "{{}}", "0..1", "1..4"), (4, "skygrid", "{{2},{1,3},{3,6}}", "0..2", "1..5")],
    "thorough": [(3, "constant", "{{}}", "0..3", "1..6"), (3, "skyride", "{{}}", "0..3", "1..6"),
                 (3, "skygrid", "{{},{1},{2},{4},{1,3},{2,5},{6},{1,2,7},{3,4,5}}", "0..3", "1..6"),
                 (4, "constant", "{{}}", "0..2", "1..5"), (4, "skyride", "{{}}", "0..2", "1..5"),
                 (4, "skygrid", "{{2},{1,3},{3,6},{1,2,4},{7}}", "0..2", "1..5"), (5, "skygrid", "{{2,4}}", "0..1", "1..4")],
}


def run_tlc(plan, emit):
    n, model, gs, sv, cv = plan
    d = tlc.workdir("c08")
    t, c = tlc.write_mc(d, "MC_Coalescent", "Coalescent",
                        {"NTaxa": str(n), "SampVals": sv, "CoalVals": cv, "GridSets": gs, "Model": tlc.tla(model), "Emit": "TRUE" if emit else "FALSE"},
                        ["SPECIFICATION Spec"] + ([] if emit else ["INVARIANT Agree"]))
    res = tlc.run(t, c, workers=8 if emit else 16, tag="c08", timeout=1800)
    shutil.rmtree(d, ignore_errors=True)
    return res


# ------------------------------------------------------------------ transliteration (interval table)
def interval_table(samp, coal, breaks=()):
    """[(t0, t1, k)] between consecutive distinct event / break times."""
    times = sorted(set(list(samp) + list(coal) + [b for b in breaks if b < max(coal)]))
    out = []
    for t0, t1 in zip(times[:-1], times[1:]):
        k = sum(1 for s in samp if s <= t0) - sum(1 for c in coal if c <= t0)
        out.append((t0, t1, k))
    return out


def kingman_piecewise_constant(samp, coal, grid, theta, model):
    """Exact (Fractions) integral and the list of pieces of the log terms."""
    def piece(t):
        if model == "constant":
            return 0
        if model == "skyride":
            return sum(1 for c in coal if c <= t)
        return sum(1 for g in grid if g <= t)
    integ = Fraction(0)
    for t0, t1, k in interval_table(samp, coal, grid if model == "skygrid" else ()):
        integ += Fraction(k * (k - 1) // 2) * (Fraction(t1) - Fraction(t0)) / theta[piece(t0)]
    return integ


def kingman_quad(samp, coal, N, breaks):
    """- sum C(k,2) int 1/N - sum log N(t_c), by quadrature."""
    total = mpmath.mpf(0)
    for t0, t1, k in interval_table(samp, coal, breaks):
        if k >= 2:
            total -= k * (k - 1) / 2 * mpmath.quad(lambda t: 1 / N(t), [t0, t1])
    for c in coal:
        total -= mpmath.log(N(c))
    return float(total)


def close(a, b, tol=1e-10):
    return abs(a - b) <= tol * max(1.0, abs(b))


# ------------------------------------------------------------------ real side
def permutations_of(samp, coal, rnd, k=3):
    out = [(list(samp), list(coal))]
    for _ in range(k - 1):
        s, c = list(samp), list(coal)
        rnd.shuffle(s)
        rnd.shuffle(c)
        out.append((s, c))
    return out


def check_case(ctx: Ctx, case, rnd):
    import torch
    import torchtree.evolution.coalescent as C
    samp, coal, grid, model = list(case["samp"]), list(case["coal"]), list(case["grid"]), case["model"]
    n = len(samp)
    npieces = {"constant": 1, "skyride": n - 1, "skygrid": len(grid) + 1}[model]
    theta = [2.0 ** (j + 1) for j in range(npieces)]
    integ = Fraction(case["integral"][0], case["integral"][1])
    if kingman_piecewise_constant(samp, coal, grid, [Fraction(2) ** (j + 1) for j in range(npieces)], model) != integ:
        raise Machinery(f"transliterated Kingman integral differs from Coalescent.tla on {case}")
    ctx.add("oracle_self_checks")
    tie = model == "skygrid" and any(g in coal for g in grid)
    if model == "constant":
        logs = (n - 1) * math.log(theta[0])
    elif model == "skyride":
        logs = sum(math.log(t) for t in theta)
    else:
        logs = sum(math.log(theta[sum(1 for g in grid if g <= c)]) for c in coal)
    want = -float(integ) - logs
    key = json.dumps([samp, coal, grid, model])
    ctx.add("evaluations")
    ctx.distinct(key, len(set(samp)) > 1 or len(set(samp + coal)) < len(samp + coal))
    th = torch.tensor(theta)

    def dist():
        if model == "constant":
            return C.ConstantCoalescent(th)
        if model == "skyride":
            return C.PiecewiseConstantCoalescent(th)
        return C.PiecewiseConstantCoalescentGrid(th, torch.tensor([float(g) for g in grid]))
    for s, c in permutations_of(samp, coal, rnd):
        heights = torch.tensor([float(v) for v in s + c])
        try:
            got = float(dist().log_prob(heights))
        except Exception as e:
            ctx.violation(f"C08:{model}:raises", f"{model} log_prob raised {type(e).__name__}: {e} on {key}", {"case": case})
            return
        if not tie and not close(got, want):
            ctx.violation(f"C08:{model}:log_prob", f"{model}: log density {got!r} differs from the Kingman density {want!r}; sampling {s} coalescent {c} grid {grid} "
                          f"theta {theta}", {"case": case, "order": [s, c]})
            return
        if tie:
            # a grid point on a coalescent time: either side is admissible
            alt = -float(integ) - sum(math.log(theta[sum(1 for g in grid if g < cc)]) for cc in coal)
            mixes = {want, alt}
            if not any(close(got, m) for m in mixes) and not (min(mixes) - 1e-9 <= got <= max(mixes) + 1e-9):
                ctx.violation(f"C08:{model}:log_prob-tie", f"{model}: log density {got!r} outside the admissible values {sorted(mixes)} (grid on a coalescent time)",
                              {"case": case})
                return
    # sufficient statistics reproduce the density (C20)
    if model in ("skyride", "skygrid"):
        heights = torch.tensor([float(v) for v in samp + coal])
        try:
            ss, counts = dist().sufficient_statistics(heights)
            stats = [float(x) for x in case["stats"]]
            if [float(x) for x in ss.tolist()] != stats[: len(ss)] and not tie:
                ctx.violation(f"C08:{model}:sufficient-statistics", f"{model}: sufficient statistics {ss.tolist()} differ from the per-piece sums {stats}; "
                              f"sampling {samp} coalescent {coal} grid {grid}", {"case": case})
            elif not tie:
                re = -sum(float(a) / t for a, t in zip(ss.tolist(), theta)) - sum(float(k) * math.log(t) for k, t in zip(counts.tolist(), theta))
                if not close(re, want):
                    ctx.violation(f"C08:{model}:sufficient-statistics-density", f"{model}: -sum ss/theta - sum counts log theta = {re!r}, log density {want!r}", {"case": case})
            else:
                # a grid point on a coalescent time: the definition is two-valued, but statistics and density of the same object must
                # charge the event to the same piece
                own = float(dist().log_prob(heights))
                re = -sum(float(a) / t for a, t in zip(ss.tolist(), theta)) - sum(float(k) * math.log(t) for k, t in zip(counts.tolist(), theta))
                ctx.add("tie_cases_statistics_vs_density")
                if not close(re, own):
                    ctx.violation(f"C08:{model}:sufficient-statistics-density-tie", f"{model}, grid point on a coalescent time: -sum ss/theta - sum counts log theta = {re!r} "
                                  f"but the same object's log density is {own!r}; sampling {samp} coalescent {coal} grid {grid}", {"case": case})
        except Exception as e:
            ctx.violation(f"C08:{model}:sufficient-statistics-raises", f"{type(e).__name__}: {e}", {"case": case})


def check_skyride_serial(ctx: Ctx, rnd, tier):
    """Skyride on real-valued heterochronous trees with tips sampled BETWEEN coalescent events while several lineages are alive
    (the integer lattice of the quick tier only has such intervals with a single lineage), and the `cutoff` option of the three
    grid models built from JSON against the same model with the explicit grid linspace(0, cutoff, K)[1:]."""
    import torch
    import torchtree.evolution.coalescent as C
    from torchtree.core.utils import process_object
    for it in range(12 if tier == "quick" else 100):
        n = rnd.randint(4, 8)
        coal, samp, t, alive = [], [0.0, 0.0, 0.0], 0.0, 3
        while len(samp) < n or alive > 1:
            t += rnd.uniform(0.2, 1.0)
            if len(samp) < n and (alive < 2 or rnd.random() < 0.45):
                samp.append(round(t, 3))
                alive += 1
            else:
                coal.append(round(t, 3))
                alive -= 1
        theta = [rnd.uniform(0.5, 4.0) for _ in coal]
        sc = sorted(coal)
        N = lambda u: theta[min(sum(1 for c in sc if c < u), len(theta) - 1)]
        want = kingman_quad(samp, coal, N, sc)
        ps, pc = list(samp), list(coal)
        rnd.shuffle(ps)
        ctx.add("evaluations")
        ctx.distinct(("skyride-serial", it))
        try:
            got = float(C.PiecewiseConstantCoalescent(torch.tensor(theta)).log_prob(torch.tensor(ps + pc)))
        except Exception as e:
            ctx.violation("C08:skyride:raises", f"{type(e).__name__}: {e}", {"samp": ps, "coal": pc})
            continue
        if not close(got, want, 1e-9):
            ctx.violation("C08:skyride:log_prob:serial-between-coalescences", f"skyride: log density {got!r} differs from the Kingman density {want!r}; sampling {ps} "
                          f"coalescent {pc} theta {theta}", {"samp": ps, "coal": pc, "theta": theta})
    # the cutoff option: K values <-> knots at linspace(0, cutoff, K)[1:], for the three grid models
    times = [0.0, 0.0, 0.7, 1.3, 2.9, 4.1, 6.3]
    events = [1, 1, 1, 0, 1, 0, 0]
    for typ, extra in (("PiecewiseConstantCoalescentGridModel", {}), ("PiecewiseLinearCoalescentGridModel", {}),
                       ("PiecewiseExponentialCoalescentGridModel", {"growth": {"id": "g", "type": "Parameter", "tensor": [0.1, -0.2, 0.3, 0.05]}})):
        K, cutoff = 4, 7.0
        th = [2.0, 0.8, 3.1, 1.4]
        theta_js = {"id": "th", "type": "Parameter", "tensor": [th[0]] if "Exponential" in typ else th}
        grid = torch.linspace(0, cutoff, K)[1:].tolist()
        ctx.add("evaluations")
        ctx.distinct(("cutoff", typ))
        try:
            a = float(process_object({"id": "m", "type": typ, "theta": theta_js, "cutoff": cutoff, "times": times, "events": events, **extra}, {})())
            b = float(process_object({"id": "m", "type": typ, "theta": theta_js, "grid": grid, "times": times, "events": events, **extra}, {})())
        except Exception as e:
            ctx.cov.setdefault("cutoff_option_not_checked", []).append(f"{typ}: {type(e).__name__}: {str(e)[:80]}")
            continue
        if not close(a, b, 1e-9):
            ctx.violation(f"C08:{typ}:cutoff-grid", f"{typ} built with cutoff {cutoff} and {K} values gives {a!r}; with the explicit grid {grid} it gives {b!r}",
                          {"type": typ, "cutoff": cutoff})


def check_equivalences(ctx: Ctx, rnd, tier):
    """Constant = all pieces equal; scaling law; JSON model classes (times / events data form); batches."""
    import torch
    import torchtree.evolution.coalescent as C
    from torchtree.core.utils import process_object
    for _ in range(15 if tier == "quick" else 150):
        n = rnd.randint(2, 12)
        samp = sorted(rnd.choice([0.0, 0.0, 0.5, 1.0, 1.7]) for _ in range(n))
        coal, t, k = [], 0.0, 0
        for i in range(n - 1):
            t = max(t, samp[min(i + 1, n - 1)]) + rnd.uniform(0.05, 1.0)
            coal.append(t)
        heights = torch.tensor(samp + coal)
        th = rnd.uniform(0.3, 5.0)
        grid = sorted(rnd.uniform(0.1, coal[-1] * 1.3) for _ in range(rnd.randint(1, 4)))
        base = float(C.ConstantCoalescent(torch.tensor([th])).log_prob(heights))
        ref = kingman_quad(samp, coal, lambda t_: th, [])
        ctx.add("evaluations")
        ctx.distinct(("equiv", n, tuple(samp), tuple(round(c, 6) for c in coal)))
        vals = {"constant-vs-quadrature": ref,
                "skyride-all-equal": float(C.PiecewiseConstantCoalescent(torch.full((n - 1,), th)).log_prob(heights)),
                "skygrid-all-equal": float(C.PiecewiseConstantCoalescentGrid(torch.full((len(grid) + 1,), th), torch.tensor(grid)).log_prob(heights)),
                "soft-skygrid-temperature-none": None}
        for name, v in vals.items():
            if v is not None and not close(v, base, 1e-9):
                ctx.violation(f"C08:equivalence:{name}", f"{name}: {v!r} vs constant model {base!r} (n={n}, theta={th}, sampling {samp}, coalescent {coal}, grid {grid})",
                              {"samp": samp, "coal": coal, "grid": grid})
        c = 2.5
        scaled = float(C.ConstantCoalescent(torch.tensor([th * c])).log_prob(heights * c))
        if not close(scaled, base - (n - 1) * math.log(c), 1e-9):
            ctx.violation("C08:scaling-law", f"scaling times and sizes by {c} shifts the density by {scaled - base!r}, expected {-(n - 1) * math.log(c)!r}", {"samp": samp, "coal": coal})
        # JSON model, data form
        order = sorted([(s, 1) for s in samp] + [(cc, 0) for cc in coal])
        js = {"id": "coal", "type": "ConstantCoalescentModel", "theta": {"id": "theta", "type": "Parameter", "tensor": [th]},
              "times": [o[0] for o in order], "events": [o[1] for o in order]}
        try:
            v = float(process_object(js, {})())
            if not close(v, base, 1e-9):
                ctx.violation("C08:json:ConstantCoalescentModel", f"JSON model (times/events) gives {v!r}, distribution gives {base!r}", {"json": js})
        except Exception as e:
            ctx.violation("C08:json:ConstantCoalescentModel:raises", f"{type(e).__name__}: {e}", {"json": js})
        # batched thetas / heights against slices
        thB = torch.tensor([[th], [th * 2], [th / 3]])
        b = C.ConstantCoalescent(thB).log_prob(heights).reshape(-1).tolist()
        singles = [float(C.ConstantCoalescent(thB[i]).log_prob(heights)) for i in range(3)]
        if not all(close(x, y, 1e-12) for x, y in zip(b, singles)):
            ctx.violation("C08:batched:ConstantCoalescent", f"batched thetas give {b}, slices {singles}", {})


def check_nonconstant(ctx: Ctx, rnd, tier):
    import torch
    import torchtree.evolution.coalescent as C
    for it in range(12 if tier == "quick" else 120):
        n = rnd.randint(2, 10 if tier == "quick" else 50)
        hetero = rnd.random() < 0.6
        samp = sorted((rnd.choice([0.0, 0.3, 0.9, 1.4]) if hetero else 0.0) for _ in range(n))
        coal, t = [], 0.0
        for i in range(n - 1):
            t = max(t, samp[min(i + 1, n - 1)]) + rnd.uniform(0.05, 0.6)
            coal.append(t)
        perm_s, perm_c = list(samp), list(coal)
        if rnd.random() < 0.7:
            rnd.shuffle(perm_s)
            rnd.shuffle(perm_c)
        heights = torch.tensor(perm_s + perm_c)
        ctx.add("evaluations")
        ctx.distinct(("nonconstant", it))
        # exponential growth: N(t) = theta exp(-g t)
        th, g = rnd.uniform(0.5, 4.0), rnd.choice([-1.2, -0.3, 0.4, 1.5])
        want = kingman_quad(samp, coal, lambda u: th * mpmath.exp(-g * u), [])
        try:
            got = float(C.ExponentialCoalescent(torch.tensor([th]), torch.tensor([g])).log_prob(heights))
            if not close(got, want, 1e-9):
                ctx.violation("C08:ExponentialCoalescent:log_prob", f"exponential growth (theta={th}, growth={g}): {got!r} vs Kingman quadrature {want!r}; sampling {perm_s} "
                              f"coalescent {perm_c}", {"samp": perm_s, "coal": perm_c, "theta": th, "growth": g})
            # scaling law over many orders of magnitude (times * c, theta * c, growth / c): the density shifts by -(n-1) log c;
            # with c >= 1e6 the growth rate is tiny while growth * height is not
            for cc in (1.0e3, 1.0e6, 1.0e8):
                sc = float(C.ExponentialCoalescent(torch.tensor([th * cc]), torch.tensor([g / cc])).log_prob(heights * cc))
                ctx.add("scaling_law_evaluations")
                if not close(sc, got - (n - 1) * math.log(cc), 1e-8):
                    ctx.violation("C08:ExponentialCoalescent:scaling-law", f"exponential growth (theta={th}, growth={g}): scaling times and size by {cc:g} and the growth "
                                  f"rate by its inverse shifts the density by {sc - got!r}, expected {-(n - 1) * math.log(cc)!r}", {"samp": perm_s, "coal": perm_c, "c": cc})
                    break
        except Exception as e:
            ctx.violation("C08:ExponentialCoalescent:raises", f"{type(e).__name__}: {e}", {"samp": perm_s, "coal": perm_c})
        # piecewise linear: thetas at 0 and at the grid points, constant beyond the last
        grid = sorted(rnd.uniform(0.2, coal[-1] * 1.2) for _ in range(rnd.randint(1, 3)))
        thetas = [rnd.uniform(0.5, 4.0) for _ in range(len(grid) + 1)]
        if rnd.random() < 0.4 and len(thetas) > 2:
            thetas[1] = thetas[0]                       # a flat segment between two grid points
        knots = [0.0] + grid

        def Nlin(u):
            u = float(u)
            for i in range(len(knots) - 1):
                if knots[i] <= u <= knots[i + 1]:
                    return thetas[i] + (thetas[i + 1] - thetas[i]) * (u - knots[i]) / (knots[i + 1] - knots[i])
            return thetas[-1]
        want = kingman_quad(samp, coal, Nlin, grid)
        try:
            got = float(C.PiecewiseLinearCoalescentGrid(torch.tensor(thetas), torch.tensor(grid)).log_prob(heights))
            if not close(got, want, 1e-8):
                flat = any(abs(thetas[i] - thetas[i + 1]) < 1e-15 for i in range(len(thetas) - 1))
                ctx.violation(f"C08:PiecewiseLinearCoalescentGrid:log_prob{':flat-segment' if flat else ''}{':heterochronous' if hetero else ''}",
                              f"piecewise-linear (thetas={thetas}, grid={grid}): {got!r} vs Kingman quadrature {want!r}; sampling {perm_s} coalescent {perm_c}",
                              {"samp": perm_s, "coal": perm_c, "thetas": thetas, "grid": grid})
        except Exception as e:
            ctx.violation("C08:PiecewiseLinearCoalescentGrid:raises", f"{type(e).__name__}: {str(e)[:200]}", {"samp": perm_s, "coal": perm_c, "thetas": thetas, "grid": grid})
        # piecewise exponential: N(0) = theta, growth rate per grid piece
        growth = [rnd.choice([-0.8, -0.2, 0.3, 1.0]) for _ in range(len(grid) + 1)]

        def Nexp(u):
            u = float(u)
            logn, prev = math.log(th), 0.0
            for i, gp in enumerate(grid):
                if u <= gp:
                    return math.exp(logn - growth[i] * (u - prev))
                logn -= growth[i] * (gp - prev)
                prev = gp
            return math.exp(logn - growth[-1] * (u - prev))
        want = kingman_quad(samp, coal, Nexp, grid)
        try:
            got = float(C.PiecewiseExponentialCoalescentGrid(torch.tensor([th]), torch.tensor(growth), torch.tensor(grid)).log_prob(heights))
            if not close(got, want, 1e-8):
                multi = any(c > grid[0] for c in coal)
                ctx.violation(f"C08:PiecewiseExponentialCoalescentGrid:log_prob{':beyond-first-piece' if multi else ''}",
                              f"piecewise-exponential (theta={th}, growth={growth}, grid={grid}): {got!r} vs Kingman quadrature {want!r}; sampling {perm_s} "
                              f"coalescent {perm_c}", {"samp": perm_s, "coal": perm_c, "theta": th, "growth": growth, "grid": grid})
        except Exception as e:
            ctx.violation("C08:PiecewiseExponentialCoalescentGrid:raises", f"{type(e).__name__}: {str(e)[:200]}", {"samp": perm_s, "coal": perm_c, "growth": growth, "grid": grid})


def run(ctx: Ctx):
    use_src()
    import logging
    logging.disable(logging.CRITICAL)
    rnd = random.Random(ctx.seed + 8)
    for plan in PLANS[ctx.tier]:
        res = run_tlc(plan, False)
        ctx.tlc(res, f"Coalescent n={plan[0]} {plan[1]} grids={plan[2]}")
        if res.violations:
            raise Machinery(f"Coalescent.tla: bookkeeping differs from the definition (spec error or design defect): {res.violations[0].trace[-1][1]}")
        seen, cases = set(), []
        for c in run_tlc(plan, True).emitted("CASE"):
            k = json.dumps(c, sort_keys=True)
            if k not in seen:
                seen.add(k)
                cases.append(c)
        step = max(1, len(cases) // (400 if ctx.tier == "quick" else 3000))
        for case in cases[::step]:
            check_case(ctx, case, rnd)
            ctx.add("traces_validated_against_impl")
        ctx.sample(cases[len(cases) // 2], limit=4)
    check_equivalences(ctx, rnd, ctx.tier)
    check_skyride_serial(ctx, rnd, ctx.tier)
    check_nonconstant(ctx, rnd, ctx.tier)
    ctx.cov["rule"] = ("TLC-emitted (sampling times, coalescent times, grid, model) cases evaluated with node heights in three supplied orders; random real-valued "
                       "cases for equivalences / scaling / non-constant demographies; non-trivial = heterochronous or tied event times")
    ctx.assumptions += ["soft (temperature) variants are not judged", "a grid point exactly on a coalescent time: either side accepted (the definition is two-valued there)",
                        "quadrature: mpmath.quad at 30 digits on each inter-event / inter-grid interval"]
