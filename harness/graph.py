"""Extraction of the abstract model graph (constants of ModelGraph.tla) from live torchtree
objects: nodes, cache flags, listener lists, data-flow inputs, and handler tables obtained by
probing each handler on each valuation of the listener's flags."""
from __future__ import annotations

import itertools
import re

FLAG_RE = re.compile(r"^_?(lp_)?needs?_update$|_need_update$|^need_update$|_needs_update$")


def _is_node(o):
    from torchtree.core.abstractparameter import AbstractParameter
    from torchtree.core.parametric import Parametric
    return isinstance(o, (AbstractParameter, Parametric))


def flags_of(o):
    out = []
    for k, v in vars(o).items():
        if isinstance(v, bool) and FLAG_RE.search(k):
            out.append(k)
    return sorted(out)


def listeners_attr(o):
    for a in ("listeners", "_listeners"):
        if isinstance(vars(o).get(a), list):
            return a
    return None


def children_of(o):
    """Objects held by o that it reads when (re)computing (containment-based data flow)."""
    out = []
    seen = set()

    def add(x):
        if _is_node(x) and id(x) not in seen and x is not o:
            seen.add(id(x))
            out.append(x)

    d = vars(o)
    for k, v in d.items():
        if k in ("listeners", "_listeners"):
            continue
        if k in ("_parameters", "_models"):
            for x in v.values():
                add(x)
        elif _is_node(v):
            add(v)
        elif isinstance(v, (list, tuple)):
            for x in v:
                add(x)
        elif type(v).__module__.startswith(("torch.distributions", "torchtree.distributions.transforms",
                                            "torchtree.evolution")) and hasattr(v, "__dict__") and not _is_node(v):
            # parameters held by a (parametric) transform or helper object
            for x in vars(v).values():
                add(x)
    return out


class Graph:
    def __init__(self, dic):
        self.dic = dic
        self.nodes = {}     # name -> object
        self.names = {}     # id(obj) -> name
        anon = itertools.count()
        work = [o for o in dic.values() if _is_node(o)]
        for k, o in dic.items():
            if _is_node(o):
                self._add(str(k), o)
        while work:
            o = work.pop()
            for c in children_of(o):
                if id(c) not in self.names:
                    self._add(f"anon{next(anon)}.{type(c).__name__}" if getattr(c, "id", None) in (None, "") or str(c.id) in self.nodes
                              else str(c.id), c)
                    work.append(c)
            la = listeners_attr(o)
            if la:
                for l in getattr(o, la):
                    if _is_node(l) and id(l) not in self.names:
                        self._add(f"anon{next(anon)}.{type(l).__name__}", l)
                        work.append(l)
        self.flags = {n: flags_of(o) for n, o in self.nodes.items()}
        self.lst = {}
        for n, o in self.nodes.items():
            la = listeners_attr(o)
            self.lst[n] = [self.names[id(l)] for l in (getattr(o, la) if la else []) if id(l) in self.names]
        self.inputs = {n: [self.names[id(c)] for c in children_of(o)] for n, o in self.nodes.items()}
        self.guard = {n: self._guard(o) for n, o in self.nodes.items()}
        self.init_flags = self.get_flags()

    def _add(self, name, o):
        self.nodes[name] = o
        self.names[id(o)] = name

    @staticmethod
    def _guard(o):
        fl = flags_of(o)
        for pref in (["lp_needs_update"], ["need_update"], ["_need_update"], ["needs_update"]):
            if all(p in fl for p in pref):
                return pref
        return fl

    def get_flags(self):
        return {n: frozenset(f for f in fl if getattr(self.nodes[n], f)) for n, fl in self.flags.items()}

    def set_flags(self, n, true_set):
        o = self.nodes[n]
        for f in self.flags[n]:
            object.__setattr__(o, f, f in true_set)

    def fire_kind(self, n):
        """Kind of notification the node sends when it fires by itself."""
        from torchtree.core.abstractparameter import AbstractParameter
        return "param" if isinstance(self.nodes[n], AbstractParameter) else "model"

    # ---- probing ------------------------------------------------------------------------
    def probe_handlers(self):
        """Handler table: (listener, kind, source) -> {frozenset(true flags) -> effect}."""
        table = {}
        raises = []
        for src, ls in self.lst.items():
            kinds = ["param"] if self.fire_kind(src) == "param" else ["model"]
            for l in dict.fromkeys(ls):
                for kind in kinds:
                    meth = "handle_parameter_changed" if kind == "param" else "handle_model_changed"
                    lo = self.nodes[l]
                    if not hasattr(lo, meth):
                        continue
                    ent = {}
                    fl = self.flags[l]
                    la = listeners_attr(lo)
                    saved_flags = {f: getattr(lo, f) for f in fl}
                    saved_l = getattr(lo, la) if la else None
                    for r in range(len(fl) + 1):
                        for tset in itertools.combinations(fl, r):
                            spy = _Spy()
                            if la:
                                object.__setattr__(lo, la, [spy])
                            self.set_flags(l, set(tset))
                            raised = False
                            try:
                                getattr(lo, meth)(self.nodes[src], None, None)
                            except Exception as e:  # a handler must never raise
                                raised = True
                                raises.append((l, kind, src, f"{type(e).__name__}: {e}"))
                            after = {f for f in fl if getattr(lo, f)}
                            ent[frozenset(tset)] = {"set": sorted(after - set(tset)), "clr": sorted(set(tset) - after),
                                                    "fire": list(spy.calls), "raise": raised}
                    for f, v in saved_flags.items():
                        object.__setattr__(lo, f, v)
                    if la:
                        object.__setattr__(lo, la, saved_l)
                    table[(l, kind, src)] = ent
        return table, raises


def probe_reads(g):
    """For every node with observables: make everything dirty, evaluate all its observables, and
    record which flags of which *other* cached nodes were cleared: the quantities it reads."""
    reads = {}
    saved = g.get_flags()
    for n, o in g.nodes.items():
        obs = observables(o)
        reads[n] = []
        if not obs or not evaluable(o):
            continue
        for m in g.nodes:
            g.set_flags(m, set(g.flags[m]))
        try:
            import torch
            torch.manual_seed(4711)
            for _, th in obs:
                th()
        except Exception:
            continue
        after = g.get_flags()
        # cached descendants through containment, in discovery order
        order, seen, stack = [], {n}, list(reversed(g.inputs[n]))
        while stack:
            x = stack.pop()
            if x in seen:
                continue
            seen.add(x)
            order.append(x)
            stack.extend(reversed(g.inputs[x]))
        clr = {m: set(g.flags[m]) - set(after[m]) for m in order}
        for m in order:
            if clr[m] and direct_reader(g, n, m, clr):
                reads[n].append((m, sorted(clr[m])))
    for m, fl in saved.items():
        g.set_flags(m, set(fl))
    return reads


def direct_reader(g, n, m, clr):
    """m is reached from n through nodes that were not themselves refreshed (no flags, or held
    but not evaluated): their own recursion does not account for the read."""
    stack, seen = list(g.inputs[n]), set()
    while stack:
        x = stack.pop()
        if x in seen:
            continue
        seen.add(x)
        if x == m:
            return True
        if not clr.get(x):
            stack.extend(g.inputs[x])
    return False


def evaluable(o):
    """Objects that can be evaluated repeatedly (variational objectives draw samples when they
    recompute: they are evaluated under a fixed seed, see side_op)."""
    return not type(o).__module__.startswith(("torchtree.optim", "torchtree.inference"))


def side_op(g, n):
    """Update a node performs itself when it recomputes: variational objectives draw from q."""
    o = g.nodes[n]
    if type(o).__module__.startswith("torchtree.variational") and hasattr(o, "q") and id(o.q) in g.names:
        return "sample:" + g.names[id(o.q)] + "@" + n
    return ""


def probe_roots(g, thunk):
    """Run thunk() and return the fire_* calls it makes itself (not nested in another fire)."""
    depth = [0]
    roots = []
    undo = []
    for n, o in g.nodes.items():
        for meth, kind in (("fire_parameter_changed", "param"), ("fire_model_changed", "model")):
            if not hasattr(o, meth):
                continue
            orig = getattr(o, meth)

            def wrapped(*a, _orig=orig, _n=n, _k=kind, **kw):
                if depth[0] == 0:
                    roots.append([_n, _k])
                depth[0] += 1
                try:
                    return _orig(*a, **kw)
                finally:
                    depth[0] -= 1
            object.__setattr__(o, meth, wrapped)
            undo.append((o, meth))
    try:
        thunk()
    finally:
        for o, meth in undo:
            object.__delattr__(o, meth)
    return roots


class _Spy:
    def __init__(self):
        self.calls = []

    def handle_parameter_changed(self, variable, index, event):
        self.calls.append("param")

    def handle_model_changed(self, model, obj, index):
        self.calls.append("model")


# ---- observables -------------------------------------------------------------------------
def observables(o):
    """[(name, thunk)] cached quantities a user can read from the object."""
    import collections.abc
    from torchtree.core.abstractparameter import AbstractParameter
    out = []
    if isinstance(o, AbstractParameter):
        out.append(("tensor", lambda: o.tensor))
        if isinstance(o, collections.abc.Callable):
            out.append(("call", lambda: o()))
    elif isinstance(o, collections.abc.Callable) and hasattr(o, "lp_needs_update"):
        out.append(("call", lambda: o()))
    if hasattr(o, "branch_lengths") and callable(getattr(o, "branch_lengths")):
        out.append(("branch_lengths", lambda: o.branch_lengths()))
    if hasattr(type(o), "node_heights"):
        out.append(("node_heights", lambda: o.node_heights))
    if hasattr(o, "rates") and callable(getattr(o, "rates")) and hasattr(o, "probabilities"):
        out.append(("rates", lambda: o.rates()))
        out.append(("probabilities", lambda: o.probabilities()))
    return out


def primary(o):
    obs = observables(o)
    return obs[0] if obs else None
