"""Shared by C06 / C07: TLC runs of NodeHeights.tla and construction of the real time-tree models."""
from __future__ import annotations

import shutil
from fractions import Fraction

from . import tlc

PLANS = {
    "quick": [
        (3, "ratio", "{<<1,4>>,<<1,2>>,<<3,4>>}", "0..2", "{1,2}", 1),
        (3, "shift", "{<<1,1>>,<<2,1>>,<<1,2>>}", "0..3", "{1}", 1),
        (4, "ratio", "{<<1,4>>,<<3,4>>}", "{0,2}", "{1}", 9),
        (4, "shift", "{<<1,1>>,<<2,1>>}", "{0,3}", "{1}", 9),
    ],
    "thorough": [
        (3, "ratio", "{<<1,4>>,<<1,2>>,<<3,4>>}", "0..3", "{1,2}", 1),
        (3, "shift", "{<<1,1>>,<<2,1>>,<<1,2>>}", "0..3", "{1}", 1),
        (4, "ratio", "{<<1,4>>,<<1,2>>,<<3,4>>}", "{0,1,2}", "{1}", 29),
        (4, "shift", "{<<1,1>>,<<2,1>>}", "{0,1,3}", "{1}", 29),
        (5, "ratio", "{<<3,4>>}", "{0,1}", "{1}", 5),     # dyadic values only: the replay is exact in binary floating point
    ],
}


def run_tlc(plan, emit):
    n, kind, pv, dv, ro, mod = plan
    d = tlc.workdir("nh")
    t, c = tlc.write_mc(d, "MC_NodeHeights", "NodeHeights",
                        {"NTaxa": str(n), "Kind": tlc.tla(kind), "DateVals": dv, "ParamVals": pv, "RootOffsets": ro,
                         "Emit": "TRUE" if emit else "FALSE", "EmitMod": str(mod)},
                        ["SPECIFICATION Spec"] + ([] if emit else ["INVARIANT AllOK"]))
    res = tlc.run(t, c, workers=8 if emit else 16, tag="nh", timeout=2400)
    shutil.rmtree(d, ignore_errors=True)
    return res


def fr(p):
    return Fraction(p[0], p[1])


def spec_tree(t):
    return int(t[1]) if t[0] == "L" else (spec_tree(t[1]), spec_tree(t[2]))


def newick(t, names):
    def rec(x):
        return names[x] if isinstance(x, int) else "(" + rec(x[0]) + "," + rec(x[1]) + ")"
    return rec(t) + ";"


def build_model(case, xs=None, single_param=False):
    """ReparameterizedTimeTreeModel for an emitted case; xs = list of parameter vectors (batched) or None."""
    import torch
    from torchtree.core.utils import process_object
    n = len(case["dates"])
    names = [f"t{i}" for i in range(n)]
    tree = spec_tree(case["tree"])
    x = [float(fr(v)) for v in case["x"]] if xs is None else xs
    dic = {}
    process_object({"id": "taxa", "type": "Taxa", "taxa": [{"id": names[i], "type": "Taxon", "attributes": {"date": float(case["dates"][i])}}
                                                             for i in range(n)]}, dic)
    js = {"id": "tree", "type": "ReparameterizedTimeTreeModel", "newick": newick(tree, names), "taxa": "taxa"}
    batched = xs is not None and isinstance(xs[0], (list, tuple))
    if case["kind"] == "ratio":
        if batched:
            js["ratios"] = {"id": "ratios", "type": "Parameter", "tensor": [r[:-1] for r in x]}
            js["root_height"] = {"id": "root_height", "type": "Parameter", "tensor": [r[-1:] for r in x]}
        else:
            js["ratios"] = {"id": "ratios", "type": "Parameter", "tensor": x[:-1]}
            js["root_height"] = {"id": "root_height", "type": "Parameter", "tensor": x[-1:]}
    else:
        js["shifts"] = {"id": "shifts", "type": "Parameter", "tensor": x}
    tm = process_object(js, dic)
    return tm, dic


def seq(v, lo, hi):
    """Emitted function with integer domain lo..hi (JSON list or object) -> list."""
    if isinstance(v, dict):
        return [v[str(i)] for i in range(lo, hi + 1)]
    return list(v)


def norm_case(c):
    n = len(c["dates"])
    c = dict(c)
    c["dates"] = seq(c["dates"], 0, n - 1)
    c["x"] = seq(c["x"], n, 2 * n - 2)
    c["heights"] = seq(c["heights"], 0, 2 * n - 2)
    c["branches"] = seq(c["branches"], 0, 2 * n - 3)
    return c


# ---- transliteration of NodeHeights.tla for trees beyond TLC's lattice (validated on emitted cases)
def oracle(tree, dates, kind, x):
    """tree: nested tuples of leaf indices; x: list indexed by internal index - n (Fractions or floats).
    Returns (heights by node index, branch lengths by node index, determinant)."""
    from .oracle_phylo import postorder_triples
    n = len(dates)
    triples, root = postorder_triples(tree, n)
    mind, maxd = min(dates), max(dates)
    samp = [d if mind == 0 else maxd - d for d in dates]
    bound = {i: samp[i] for i in range(n)}
    for node, l, r in triples:
        bound[node] = max(bound[l], bound[r])
    parent = {}
    for node, l, r in triples:
        parent[l] = node
        parent[r] = node
    h = {i: samp[i] for i in range(n)}
    det = 1
    if kind == "ratio":
        h[root] = x[root - n]
        for node, l, r in reversed(triples):          # parents before children
            for c in (l, r):
                if c >= n:
                    h[c] = bound[c] + x[c - n] * (h[node] - bound[c])
                    det = det * (h[node] - bound[c])
    else:
        for node, l, r in triples:
            h[node] = max(h[l], h[r]) + x[node - n]
    heights = [h[i] for i in range(2 * n - 1)]
    branches = [h[parent[c]] - h[c] for c in range(2 * n - 2)]
    return heights, branches, det
