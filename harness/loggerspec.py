"""Logger.tla <-> core/logger.py:Logger (growth of the specification, served with C15).

TLC checks the Req properties of the logger life cycle (RowsMultiples, HeaderFirst, ImplicitCadence, McmcRows, RowsInOrder,
CounterCounts) over every call sequence up to the bound, then emits every maximal behaviour; each is replayed on the real
Logger writing to a real file, and after EVERY call the file content (header count, rows as (sample, value)) and the private
counter are compared with the specification's state, which is recomputed call by call from the emitted history by the same
rules (binding: a logger that drops, repeats, re-orders or mis-numbers a row, or shows a stale parameter, is rejected).
The last state is additionally compared with the rows TLC itself printed.
"""
from __future__ import annotations

import csv
import os
import shutil

from . import tlc
from .common import Ctx, Machinery


def _read(path):
    with open(path) as f:
        rows = list(csv.reader(f))
    headers = [r for r in rows if r and r[0] == "sample"]
    data = [(int(float(r[0])), float(r[1])) for r in rows if r and r[0] != "sample"]
    widths = {len(r) for r in rows if r}
    return len(headers), data, widths


def check(ctx: Ctx, quick: bool):
    import torch
    from torchtree import Parameter
    from torchtree.core.logger import Logger

    consts = {"Everys": "{1, 2, 3}", "Vals": "{5, 7}", "MaxSample": "4" if quick else "6", "MaxCalls": "5" if quick else "6", "Emit": "FALSE"}
    d = tlc.workdir("logger")
    t, c = tlc.write_mc(d, "MC_Logger", "Logger", consts,
                        ["SPECIFICATION Spec", "INVARIANT RowsMultiples", "INVARIANT HeaderFirst", "INVARIANT ImplicitCadence",
                         "INVARIANT McmcRows", "INVARIANT CounterCounts", "PROPERTY RowsInOrder", "CHECK_DEADLOCK FALSE"])
    res = tlc.run(t, c, workers=8, cont=True, tag="logger", timeout=900)
    consts["Emit"] = "TRUE"
    t2, c2 = tlc.write_mc(d, "MC_LoggerE", "Logger", consts, ["SPECIFICATION Spec", "CHECK_DEADLOCK FALSE"])
    em = tlc.run(t2, c2, workers=1, tag="logger", timeout=900)
    ctx.tlc(res, "Logger")
    if res.violations:
        shutil.rmtree(d, ignore_errors=True)
        raise Machinery(f"Logger.tla: TLC reports {[v.name for v in res.violations][:3]} on the specification itself")
    behs = [p[1] for p in em.prints if isinstance(p, tuple) and len(p) == 2 and p[0] == "LOGGER"]
    if not behs:
        shutil.rmtree(d, ignore_errors=True)
        raise Machinery("Logger.tla emitted no behaviour")
    path = os.path.join(d, "log.csv")
    bad = 0
    ops_seen = set()
    for b in behs:
        every, calls = b["every"], list(b["calls"])
        p = Parameter("x", torch.tensor([float(calls[0]["arg"])], dtype=torch.float64))
        lg = Logger([p], every, file_name=path)
        if os.path.exists(path):
            os.remove(path)
        headers, rows, counter, val, is_open = 0, [], 1, calls[0]["arg"], False
        for k, cl in enumerate(calls[1:], 1):
            op, arg = cl["op"], cl["arg"]
            ops_seen.add(op if op != "log" else ("log-implicit" if arg < 0 else "log-explicit"))
            if op == "initialize":
                lg.initialize(); headers, rows, is_open = 1, [], True
            elif op == "close":
                lg.close(); is_open = False
            elif op == "set":
                p.tensor = torch.tensor([float(arg)], dtype=torch.float64); val = arg
            elif op == "log":
                s = counter if arg < 0 else arg
                if arg < 0:
                    lg.log()
                else:
                    lg.log(sample=arg)
                counter += 1
                if s % every == 0:
                    rows.append((s, float(val)))
            else:
                raise Machinery(f"Logger.tla emitted an unknown call {op}")
            if is_open:
                lg.f.flush()
            got = _read(path) if headers else (0, [], set())
            ctx.add("logger_calls_replayed")
            if got[0] != headers or got[1] != rows or lg.sample != counter or (got[2] - {2}):
                bad += 1
                if bad <= 3:
                    ctx.note(f"MODEL-DRIFT bind:logger every={every} calls={[(c_['op'], c_['arg']) for c_ in calls[:k + 1]]}: the file holds "
                             f"{got[0]} header(s), rows {got[1]}, counter {lg.sample}, row widths {sorted(got[2])}; Logger.tla says "
                             f"{headers} header(s), rows {rows}, counter {counter}")
                ctx.add("model_drift")
                break
        else:
            want = [(r["sample"], float(r["val"])) for r in b["rows"]]
            if want != rows or b["counter"] != counter or b["headers"] != headers:
                shutil.rmtree(d, ignore_errors=True)
                raise Machinery(f"Logger.tla and its transliteration disagree on {calls}: {want} vs {rows}")
            ctx.add("logger_behaviours_matching")
        if is_open:
            lg.close()
    shutil.rmtree(d, ignore_errors=True)
    ctx.cov["logger"] = {"behaviours": len(behs), "calls_kinds_replayed": sorted(ops_seen), "rejected": bad,
                         "tlc_distinct_states": getattr(res, "distinct", None)}
