"""Driver for TLC: runs a module/config, parses statistics, coverage,
violations (with counterexample states), PrintT emissions and simulation traces.

Exit-status policy lives in common.py; this module only reports what TLC said.
"""
from __future__ import annotations

import json
import os
import re
import shutil
import subprocess
import tempfile
import time
from dataclasses import dataclass, field

from . import tlaval

VERIF = os.path.dirname(os.path.dirname(os.path.abspath(__file__)))
SPEC = os.path.join(VERIF, "spec")
LIB = os.path.join(SPEC, "lib")
JAR = "/opt/veriftools/tla/tla2tools.jar:/opt/veriftools/tla/CommunityModules-deps.jar"
WORK = os.path.join(VERIF, ".work")


class TLCFailure(Exception):
    """TLC itself failed (parse error, overflow, timeout...): machinery failure."""


@dataclass
class Violation:
    kind: str            # invariant | action_property | deadlock | assertion | temporal
    name: str
    trace: list = field(default_factory=list)   # list of (action_label, state dict)


@dataclass
class TLCResult:
    stdout: str
    generated: int = 0
    distinct: int = 0
    depth: int = 0
    wall_s: float = 0.0
    violations: list = field(default_factory=list)
    coverage: dict = field(default_factory=dict)  # action name -> (distinct, total)
    prints: list = field(default_factory=list)    # parsed PrintT values
    ok: bool = True
    cmd: str = ""

    def emitted(self, tag):
        """PrintT(<<tag, jsonstring>>) or PrintT(<<tag, value>>) payloads."""
        out = []
        for p in self.prints:
            if isinstance(p, tuple) and len(p) == 2 and p[0] == tag:
                v = p[1]
                if isinstance(v, str) and v[:1] in "[{":
                    try:
                        v = json.loads(v)
                    except ValueError:
                        pass
                out.append(v)
        return out


def workdir(tag: str) -> str:
    os.makedirs(WORK, exist_ok=True)
    return tempfile.mkdtemp(prefix=f"{tag}-{os.getpid()}-", dir=WORK)


def write_mc(dirpath: str, name: str, extends: str, constants: dict, cfg_lines: list[str],
             extra_defs: str = "", extends_more: list[str] | None = None) -> tuple[str, str]:
    """Write MC module `name` that EXTENDS `extends` and defines constants as
    literals (`c_X == <literal>`; cfg gets `X <- c_X`).  Returns (tla, cfg)."""
    mods = [extends] + (extends_more or [])
    lines = [f"---- MODULE {name} ----", "EXTENDS " + ", ".join(mods)]
    cfg = []
    if constants:
        cfg.append("CONSTANTS")
    for k, v in constants.items():
        lines.append(f"c_{k} == {v}")
        cfg.append(f"  {k} <- c_{k}")
    if extra_defs:
        lines.append(extra_defs)
    lines.append("====")
    cfg.extend(cfg_lines)
    tla = os.path.join(dirpath, name + ".tla")
    cfgp = os.path.join(dirpath, name + ".cfg")
    with open(tla, "w") as f:
        f.write("\n".join(lines) + "\n")
    with open(cfgp, "w") as f:
        f.write("\n".join(cfg) + "\n")
    return tla, cfgp


def tla(v) -> str:
    """Python value -> TLA+ literal."""
    if isinstance(v, bool):
        return "TRUE" if v else "FALSE"
    if isinstance(v, int):
        return str(v)
    if isinstance(v, str):
        return '"' + v.replace("\\", "\\\\").replace('"', '\\"') + '"'
    if isinstance(v, (list, tuple)):
        return "<<" + ", ".join(tla(x) for x in v) + ">>"
    if isinstance(v, (set, frozenset)):
        return "{" + ", ".join(tla(x) for x in sorted(v, key=repr)) + "}"
    if isinstance(v, dict):
        if not v:
            return "<<>>"
        if all(isinstance(k, str) and re.fullmatch(r"[A-Za-z_][A-Za-z0-9_]*", k) for k in v):
            return "[" + ", ".join(f"{k} |-> {tla(x)}" for k, x in v.items()) + "]"
        return "(" + " @@ ".join(f"{tla(k)} :> {tla(x)}" for k, x in v.items()) + ")"
    raise TypeError(f"cannot render {type(v)}")


_RE_STATS = re.compile(r"(\d+) states generated, (\d+) distinct states found")
_RE_DEPTH = re.compile(r"The depth of the complete state graph search is (\d+)")
_RE_COV = re.compile(r"^<(\w+) line (\d+), col \d+ to line \d+, col \d+ of module (\w+)>: (\d+):(\d+)", re.M)
_RE_STATE = re.compile(r"^State (\d+): (.*)$", re.M)


def _parse_prints(out: str) -> list:
    """PrintT values: TLC prints them on their own lines; a value may span lines.
    We collect lines that start with << or [ or { or ( or a quote and are balanced."""
    prints = []
    fast = re.compile(r'^<<"(\w+)", "(.*)">>$')
    lines = out.split("\n")
    i = 0
    n = len(lines)
    while i < n:
        ln = lines[i]
        fm = fast.match(ln) if ln[:3] == '<<"' else None
        if fm:
            try:
                prints.append((fm.group(1), json.loads('"' + fm.group(2) + '"')))
                i += 1
                continue
            except ValueError:
                pass
        if ln[:2] == "<<" or (ln[:1] in "[{(\"" and not ln.startswith("[]")):
            buf = ln
            j = i
            while not _balanced(buf) and j + 1 < n and j - i < 20000:
                j += 1
                buf += "\n" + lines[j]
            try:
                prints.append(tlaval.parse(buf))
                i = j + 1
                continue
            except tlaval.ParseError:
                pass
        i += 1
    return prints


def _balanced(s: str) -> bool:
    depth = 0
    instr = False
    i = 0
    n = len(s)
    while i < n:
        c = s[i]
        if instr:
            if c == "\\":
                i += 1
            elif c == '"':
                instr = False
        else:
            if c == '"':
                instr = True
            elif c in "[{(":
                depth += 1
            elif c in "]})":
                depth -= 1
            elif c == "<" and s[i:i + 2] == "<<":
                depth += 1
                i += 1
            elif c == ">" and s[i:i + 2] == ">>":
                depth -= 1
                i += 1
        i += 1
    return depth == 0 and not instr


def _parse_violations(out: str) -> list[Violation]:
    vio = []
    # split at "Error:" markers
    out = out.replace("Error: The behavior up to this point is:", "The behavior up to this point is:")
    for m in re.finditer(r"^Error: (.*)$", out, re.M):
        msg = m.group(1)
        kind = None
        name = ""
        mm = re.match(r"Invariant (\S+) is violated", msg)
        if mm:
            kind, name = "invariant", mm.group(1)
        mm = mm or re.match(r"Action property (\S+) is violated", msg)
        if mm and kind is None:
            kind, name = "action_property", mm.group(1)
        if kind is None and "Deadlock reached" in msg:
            kind, name = "deadlock", "Deadlock"
        if kind is None and "Temporal properties were violated" in msg:
            kind, name = "temporal", "Temporal"
        if kind is None and "The first argument of Assert evaluated to FALSE" in msg:
            kind, name = "assertion", "Assert"
        if kind is None:
            continue
        # trace follows until next "Error:" or stats line
        tail = out[m.end():]
        stop = re.search(r"^(Error: |\d+ states generated|Finished in|The number of states)", tail, re.M)
        seg = tail[: stop.start()] if stop else tail
        trace = []
        parts = list(_RE_STATE.finditer(seg))
        for k, sm in enumerate(parts):
            end = parts[k + 1].start() if k + 1 < len(parts) else len(seg)
            body = seg[sm.end():end].strip("\n")
            body = body.split("\n\n")[0].strip()      # PrintT output may follow the state
            label = sm.group(2).strip()
            am = re.match(r"<(\w+)", label)
            label = am.group(1) if am else label
            try:
                st = tlaval.parse_state(body) if body else {}
            except tlaval.ParseError:
                st = {"_raw": body}
            trace.append((label, st))
        vio.append(Violation(kind, name, trace))
    return vio


def run(tla_path: str, cfg_path: str | None = None, *, workers: int | str = 16, timeout: int = 900,
        simulate: str | None = None, depth: int | None = None, seed: int | None = None,
        deadlock: bool = False, coverage: bool = False, dfs_queue: bool = False,
        env: dict | None = None, extra: list[str] | None = None, heap: str = "8g",
        dump: str | None = None, cont: bool = False, tag: str = "tlc") -> TLCResult:
    d = os.path.dirname(os.path.abspath(tla_path))
    mod = os.path.basename(tla_path)
    meta = workdir(tag + "-meta")
    # TLC unpacks its standard modules into java.io.tmpdir on every start: keep that inside the (removed) meta directory, not in /tmp
    jopts = [f"-Xmx{heap}", "-XX:+UseParallelGC", f"-DTLA-Library={LIB}{os.pathsep}{SPEC}", f"-Djava.io.tmpdir={meta}"]
    if dfs_queue:
        jopts.append("-Dtlc2.tool.queue.IStateQueue=StateDeque")
    cmd = ["java", *jopts, "-cp", JAR, "tlc2.TLC", "-metadir", meta, "-noGenerateSpecTE",
           "-workers", str(workers)]
    if cfg_path:
        cmd += ["-config", os.path.abspath(cfg_path)]
    if not deadlock:
        cmd += ["-deadlock"]
    if coverage:
        cmd += ["-coverage", "1"]
    if simulate is not None:
        cmd += ["-simulate", simulate] if simulate else ["-simulate"]
    if depth is not None:
        cmd += ["-depth", str(depth)]
    if seed is not None:
        cmd += ["-seed", str(seed)]
    if dump:
        cmd += ["-dump", "dot,actionlabels", dump]
    if cont:
        cmd += ["-continue"]
    cmd += list(extra or [])
    cmd.append(mod)
    e = dict(os.environ)
    e.pop("JAVA_TOOL_OPTIONS", None)
    if env:
        e.update(env)
    t0 = time.time()
    try:
        p = subprocess.run(cmd, cwd=d, env=e, stdout=subprocess.PIPE, stderr=subprocess.STDOUT,
                           timeout=timeout, text=True, errors="replace")
        out = p.stdout
        rc = p.returncode
    except subprocess.TimeoutExpired as ex:
        out = (ex.stdout or b"")
        if isinstance(out, bytes):
            out = out.decode("utf8", "replace")
        shutil.rmtree(meta, ignore_errors=True)
        if simulate is not None:
            # a simulation stopped by the budget is a normal end
            res = TLCResult(stdout=out, wall_s=time.time() - t0, cmd=" ".join(cmd))
            res.violations = _parse_violations(out)
            res.prints = _parse_prints(out)
            m = list(_RE_STATS.finditer(out))
            if m:
                res.generated, res.distinct = int(m[-1].group(1)), int(m[-1].group(2))
            return res
        raise TLCFailure(f"TLC timed out after {timeout}s: {' '.join(cmd)}\n{out[-2000:]}")
    finally:
        shutil.rmtree(meta, ignore_errors=True)
    res = TLCResult(stdout=out, wall_s=time.time() - t0, cmd=" ".join(cmd))
    m = list(_RE_STATS.finditer(out))
    if m:
        res.generated, res.distinct = int(m[-1].group(1)), int(m[-1].group(2))
    m = _RE_DEPTH.search(out)
    if m:
        res.depth = int(m.group(1))
    for cm in _RE_COV.finditer(out):
        name = cm.group(1)
        a, b = int(cm.group(4)), int(cm.group(5))
        pa, pb = res.coverage.get(name, (0, 0))
        res.coverage[name] = (pa + a, pb + b)
    res.violations = _parse_violations(out)
    res.prints = _parse_prints(out)
    hard = re.search(r"(Parsing or semantic analysis failed|TLC threw an unexpected exception|"
                     r"Error: TLC |java\.lang\.\w*(Error|Exception)|Error: Evaluating|"
                     r"Error: The |Error: In evaluation|Error: Attempted|Error: Overflow|"
                     r"Error: An |Error: Unknown|Error: Could not|Error: File)", out)
    if hard and not res.violations:
        raise TLCFailure(f"TLC failed ({hard.group(1)}): {' '.join(cmd)}\n{out[-3000:]}")
    if rc not in (0, 12, 13, 10, 11) and not res.violations:
        # 12 = safety violation, 13 = liveness, 10 = assumption, 11 = deadlock
        raise TLCFailure(f"TLC exit {rc}: {' '.join(cmd)}\n{out[-3000:]}")
    res.ok = not res.violations
    return res


def sany(path: str) -> None:
    d = os.path.dirname(os.path.abspath(path))
    cmd = ["java", f"-DTLA-Library={LIB}{os.pathsep}{SPEC}", "-cp", JAR, "tla2sany.SANY", os.path.basename(path)]
    p = subprocess.run(cmd, cwd=d, stdout=subprocess.PIPE, stderr=subprocess.STDOUT, text=True)
    if p.returncode != 0 or "Semantic errors" in p.stdout or "Parse Error" in p.stdout or "Fatal errors" in p.stdout:
        raise TLCFailure(f"SANY failed on {path}:\n{p.stdout[-3000:]}")


def require_coverage(res: TLCResult, actions: list[str]) -> list[str]:
    """Return the actions that were never taken (vacuity control)."""
    missing = []
    for a in actions:
        if res.coverage.get(a, (0, 0))[1] == 0:
            missing.append(a)
    return missing


# --- simulation trace files (tlc -simulate file=...,num=N) ------------------------------

_RE_SIMSTATE = re.compile(r"^STATE_(\d+) ==\s*$", re.M)


def parse_sim_file(path: str) -> list[tuple[str, dict]]:
    """Parse one behaviour file written by `-simulate file=...`.
    Returns [(action_label, state)], label '' for the initial state."""
    txt = open(path).read()
    out = []
    pieces = re.split(r"^(\\\* <[^\n]*>|\\\* [^\n]*)\n(?=STATE_)", txt, flags=re.M)
    # simpler: walk lines
    label = ""
    cur = None
    states = []
    for ln in txt.split("\n"):
        if ln.startswith("\\* <"):
            m = re.match(r"\\\* <(\w+)", ln)
            label = m.group(1) if m else ""
        elif ln.startswith("STATE_"):
            if cur is not None:
                states.append(cur)
            cur = [label, []]
        elif cur is not None:
            if ln.strip() == "" or ln.startswith("===="):
                continue
            cur[1].append(ln)
    if cur is not None:
        states.append(cur)
    for lab, body in states:
        text = "\n".join(body).strip()
        try:
            st = tlaval.parse_state(text)
        except tlaval.ParseError:
            st = {"_raw": text}
        out.append((lab, st))
    return out


# --- state-graph dumps (-dump dot,actionlabels) -------------------------------------------

_RE_DOTNODE = re.compile(r'^(-?\d+) \[label="((?:[^"\\]|\\.)*)"(,style = filled)?', re.M)
_RE_DOTEDGE = re.compile(r'^(-?\d+) -> (-?\d+) \[label="((?:[^"\\]|\\.)*)"', re.M)


def parse_dot(path: str):
    """Returns (nodes: id -> state dict, edges: [(src, dst, action)], init: [ids])."""
    txt = open(path).read()
    nodes, init = {}, []
    for m in _RE_DOTNODE.finditer(txt):
        nid = m.group(1)
        lab = m.group(2).replace("\\n", "\n").replace('\\"', '"').replace("\\\\", "\\")
        nodes[nid] = tlaval.parse_state(lab)
        if m.group(3):
            init.append(nid)
    edges = [(m.group(1), m.group(2), m.group(3).replace('\\"', '"')) for m in _RE_DOTEDGE.finditer(txt)]
    return nodes, edges, init
