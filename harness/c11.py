"""C11 - cached values never go stale.

For each zoo graph (real torchtree objects built from CLI-emitted JSON and hand-written
parameter zoos):
  * the abstract graph (nodes, flags, listener lists, inputs, handler tables probed on every
    flag valuation) is extracted and written as constants of ModelGraph.tla;
  * TLC explores every reachable flag state under every update operation / evaluation and
    checks NoStale and NeverRaises (finite state => all histories);
  * spec -> code: TLC counterexamples, and walks covering the transitions of the TLC state
    graph, are replayed on the real objects: after every step the real flags are compared with
    the spec state (binding of the extraction) and every evaluated value is compared with a
    freshly built copy holding the same raw parameter values (the property itself).
Only a disagreement with the fresh copy (or an exception in an update) is a violation.
"""
from __future__ import annotations

import copy
import json
import os
import random
import shutil
import time

from . import tlc, zoo
from .common import Ctx, Machinery, use_src
from .graph import Graph, evaluable, observables, primary, probe_reads, probe_roots, side_op

LEVEL = "model_checking"


# ------------------------------------------------------------------ zoo
def zoo_specs(tier):
    ev = zoo.evo_args("t4.fa", "t4.nwk")
    ev6 = zoo.evo_args()
    specs = [
        ("hky-g4-strict-constant", ["advi"] + ev + ["-m", "HKY", "-C", "4", "--clock", "strict", "--coalescent", "constant"], "advi"),
        ("jc-unrooted", ["advi"] + zoo.evo_args("t4.fa", "t4.nwk", dated=False) + ["-m", "JC69"], "advi"),
        ("hky-shift-skygrid", ["advi"] + ev + ["-m", "HKY", "--clock", "strict", "--heights", "shift", "--coalescent", "skygrid", "--grid", "3", "--cutoff", "5"], "advi"),
    ]
    if tier == "thorough":
        specs += [
            ("gtr-inv-skyride", ["advi"] + ev + ["-m", "GTR", "-I", "--clock", "strict", "--coalescent", "skyride"], "advi"),
            ("gtr-g4-ucln-bdsk", ["advi"] + ev6 + ["-m", "GTR", "-C", "4", "--clock", "ucln", "--birth-death", "bdsk", "--grid", "2"], "advi"),
            ("hky-fullrank", ["advi"] + ev + ["-m", "HKY", "--clock", "strict", "--coalescent", "constant", "-q", "fullrank"], "advi"),
            ("mcmc-hky", ["mcmc"] + ev + ["-m", "HKY", "--clock", "strict", "--coalescent", "constant", "--stem", "x"], "mcmc"),
            ("hmc-hky", ["hmc"] + ev + ["-m", "HKY", "--clock", "strict", "--coalescent", "constant", "--stem", "x"], "hmc"),
            ("mg94", ["advi"] + zoo.evo_args("t4c.fa", "t4.nwk", dated=False) + ["-m", "MG94", "--genetic_code", "0"], "advi"),
        ]
    return specs


PARAM_ZOO = [
    {"id": "base", "type": "Parameter", "tensor": [1.1, 1.2, 1.3, 1.4]},
    {"id": "v1", "type": "ViewParameter", "parameter": "base", "indices": "0:2"},
    {"id": "v2", "type": "ViewParameter", "parameter": "base", "indices": "1:4"},
    {"id": "vv", "type": "ViewParameter", "parameter": "v2", "indices": "0:2"},
    {"id": "other", "type": "Parameter", "tensor": [0.5]},
    {"id": "cat", "type": "CatParameter", "parameters": ["v1", "other"], "dim": -1},
    {"id": "pos", "type": "TransformedParameter", "transform": "torch.distributions.ExpTransform", "x": "cat"},
    {"id": "pos2", "type": "TransformedParameter", "transform": "torch.distributions.ExpTransform", "x": ["vv", "other"]},
    {"id": "scale", "type": "Parameter", "tensor": [2.0]},
    {"id": "aff", "type": "TransformedParameter", "transform": "torch.distributions.AffineTransform",
     "x": "base", "parameters": {"loc": 0.0, "scale": "scale"}},
    {"id": "d1", "type": "Distribution", "distribution": "torch.distributions.Normal", "x": "pos",
     "parameters": {"loc": {"id": "d1.loc", "type": "Parameter", "tensor": [0.0]},
                    "scale": {"id": "d1.scale", "type": "Parameter", "tensor": [1.0]}}},
    {"id": "d2", "type": "Distribution", "distribution": "torch.distributions.Normal", "x": "pos2",
     "parameters": {"loc": "d1.loc", "scale": "d1.scale"}},
    {"id": "d3", "type": "Distribution", "distribution": "torch.distributions.Exponential", "x": "v2",
     "parameters": {"rate": {"id": "d3.rate", "type": "Parameter", "tensor": [1.5]}}},
    {"id": "d4", "type": "Distribution", "distribution": "torch.distributions.Normal", "x": "aff",
     "parameters": {"loc": "d1.loc", "scale": "d1.scale"}},
    {"id": "jac", "type": "JointDistributionModel", "distributions": ["pos", "pos2"]},
    {"id": "joint", "type": "JointDistributionModel", "distributions": ["d1", "d2", "d3", "d4", "jac"]},
    {"id": "z", "type": "Parameter", "tensor": [0.2, -0.4]},
    {"id": "q", "type": "Distribution", "distribution": "torch.distributions.Normal", "x": "z",
     "parameters": {"loc": {"id": "q.loc", "type": "Parameter", "tensor": [0.1, 0.3]},
                    "scale": {"id": "q.scale", "type": "TransformedParameter", "transform": "torch.distributions.ExpTransform",
                              "x": {"id": "q.scale.unres", "type": "Parameter", "tensor": [-0.5, 0.2]}}}},
    {"id": "pz", "type": "Distribution", "distribution": "torch.distributions.Normal", "x": "z",
     "parameters": {"loc": {"id": "pz.loc", "type": "Parameter", "tensor": [0.0]},
                    "scale": {"id": "pz.scale", "type": "Parameter", "tensor": [1.5]}}},
    {"id": "qj", "type": "JointDistributionModel", "distributions": ["q"]},
    {"id": "pj", "type": "JointDistributionModel", "distributions": ["pz"]},
    {"id": "elbo.entropy", "type": "ELBO", "variational": "qj", "joint": "pj", "samples": 3, "entropy": True},
    {"id": "elbo.mc", "type": "ELBO", "variational": "qj", "joint": "pj", "samples": 3},
    {"id": "elbo.multi", "type": "ELBO", "variational": "qj", "joint": "pj", "samples": [2, 3]},
    {"id": "klpq", "type": "KLpq", "variational": "qj", "joint": "pj", "samples": 4},
]


# ------------------------------------------------------------------ real-side operations
class Real:
    """A live graph plus the means to rebuild a fresh copy with the same raw parameter values."""

    def __init__(self, doc, upto=None):
        self.doc, self.upto = doc, upto
        self.dic = zoo.load(doc, upto)
        self.g = Graph(self.dic)
        from torchtree.core.parameter import Parameter
        self.raw = {n: o for n, o in self.g.nodes.items() if type(o) is Parameter and n in self.dic}
        self.base = {n: o.tensor.detach().clone() for n, o in self.raw.items()}
        self.count = {}

    def fresh(self, bump=None):
        """Freshly built copy holding the current raw values (optionally with one raw bumped)."""
        import torch
        doc = copy.deepcopy(self.doc)
        for n, o in self.raw.items():
            js = zoo.find(doc, n)
            if js is None:
                continue
            t = o.tensor.detach()
            if bump and n in bump:
                t = t + bump[n]
            for k in list(js):
                if k not in ("id", "type", "dtype", "nn"):
                    del js[k]
            js["tensor"] = t.tolist()
            js["dtype"] = str(t.dtype)
        return zoo.load(doc, self.upto)

    def free(self, n):
        """Raw parameters that can be perturbed additively without leaving the domain."""
        return "unres" in n or n in ("base", "other", "d1.loc", "scale", "q.loc", "pz.loc", "z")

    def delta(self, n):
        c = self.count.get(n, 0) + 1
        self.count[n] = c
        return 0.03 * (1 + c % 4) * (-1 if c % 2 else 1)

    def apply(self, op):
        import torch
        kind, n = op.split(":", 1)
        o = self.g.nodes.get(n)
        if kind == "set":
            o.tensor = o.tensor.detach() + self.delta(n)
        elif kind == "inplace":
            with torch.no_grad():
                o.tensor.add_(self.delta(n))
            o.fire_parameter_changed()
        elif kind == "fetchmod":
            # what the MCMC operators do: fetch the tensor, change an entry in place, assign the same tensor back
            with torch.no_grad():
                t = o.tensor
                t = t if not t.requires_grad else t.detach()
                flat = t.reshape(-1)
                flat[0] = flat[0] * (1.0 + abs(self.delta(n)))
            o.tensor = t
        elif kind == "setvia":
            bump = {r: self.delta(r) for r in self.raws_under(n) if self.free(r)}
            f = self.fresh(bump)
            o.tensor = f[n].tensor.detach().clone()
        elif kind == "sample":
            qn, owner = n.split("@")
            torch.manual_seed(4711)
            q, ow = self.g.nodes[qn], self.g.nodes[owner]
            samples = ow.samples if isinstance(ow.samples, torch.Size) else torch.Size(ow.samples if isinstance(ow.samples, (list, tuple)) else [ow.samples])
            q.rsample(samples) if hasattr(q, "rsample") else q.sample(samples)
        else:
            raise Machinery(f"unknown op {op}")

    def eval_all(self, n):
        import torch
        torch.manual_seed(4711)
        return [(name, th()) for name, th in observables(self.g.nodes[n])]

    def raws_under(self, n):
        """Raw parameters reachable from node n through containment."""
        seen, stack, out = set(), [n], []
        while stack:
            x = stack.pop()
            if x in seen:
                continue
            seen.add(x)
            if x in self.raw:
                out.append(x)
            stack.extend(self.g.inputs[x])
        return sorted(out)


def same(a, b):
    import torch
    if a.shape != b.shape:
        return False
    return bool(torch.allclose(a.detach(), b.detach(), rtol=1e-10, atol=1e-13, equal_nan=True))


# ------------------------------------------------------------------ spec generation
def choose_ops(real: Real, max_set=8, max_via=4):
    """Candidate update operations; their notification roots and changed raw parameters are probed
    on a scratch copy of the graph (behavioural extraction)."""
    g = real.g
    from torchtree.core.parameter import CatParameter, TransformedParameter, ViewParameter
    cand = []
    sets = [n for n in sorted(real.raw) if real.free(n) and (g.lst[n] or consumers(g, [n]))]
    random.Random(1).shuffle(sets)
    cand += [f"set:{n}" for n in sets[:max_set]]
    cand += [f"inplace:{n}" for n in sets[:2]]
    vias = [n for n, o in g.nodes.items() if n in real.dic and isinstance(o, (CatParameter, TransformedParameter, ViewParameter))]
    vias = [n for n in sorted(vias) if any(real.free(r) for r in real.raws_under(n))]
    random.Random(2).shuffle(vias)
    views = [n for n in vias if isinstance(g.nodes[n], ViewParameter)]
    cand += [f"setvia:{n}" for n in (views[:2] + [v for v in vias if v not in views[:2]])[:max_via]]
    cats = [n for n in vias if isinstance(g.nodes[n], CatParameter)]
    cand += [f"fetchmod:{n}" for n in (cats[:2] + views[:1] + sets[:1])]
    sides = sorted({side_op(g, n) for n in g.nodes} - {""})
    cand += sides
    ops = {}
    for op in cand:
        probe = Real(real.doc, real.upto)
        before = {n: o.tensor.detach().clone() for n, o in probe.raw.items()}
        try:
            roots = probe_roots(probe.g, lambda: probe.apply(op))
        except Exception as e:
            ops[op] = dict(roots=[], changes=[], reads=[], raised=f"{type(e).__name__}: {e}")
            continue
        changes = sorted(n for n, o in probe.raw.items()
                         if o.tensor.shape != before[n].shape or not bool((o.tensor.detach() == before[n]).all()))
        ops[op] = dict(roots=roots, changes=changes, reads=[])
    return ops


def choose_evals(real: Real, limit=14):
    g = real.g
    ev = [n for n in sorted(g.nodes) if n in real.dic and primary(g.nodes[n]) and g.flags[n] and evaluable(g.nodes[n])]
    pri = [n for n in ev if n in ("joint", "like", "tree", "sitemodel", "prior", "coalescent", "joint.jacobian", "variational", "jac")]
    rest = [n for n in ev if n not in pri]
    random.Random(3).shuffle(rest)
    return (pri + rest)[:limit]


def consumers(g: Graph, changed):
    s = set(changed)
    while True:
        t = s | {n for n, ins in g.inputs.items() if any(i in s for i in ins)}
        if t == s:
            return s - set(changed)
        s = t


def mc_constants(g: Graph, table, ops, evals):
    T = tlc.tla
    nodes = sorted(g.nodes)

    def fn(d):   # python dict -> TLA function literal with string keys
        if not d:
            return "<<>>"
        return "(" + " @@ ".join(f"{T(k)} :> {v}" for k, v in d.items()) + ")"

    def sset(xs):
        return "{" + ", ".join(T(x) for x in xs) + "}"

    def eff(e):
        return (f"[set |-> {sset(e['set'])}, clr |-> {sset(e['clr'])}, fire |-> {T(list(e['fire']))}, "
                f"raise |-> {T(bool(e['raise']))}]")

    handler = {}
    for (l, kind, src), ent in table.items():
        inner = "(" + " @@ ".join(f"{sset(sorted(k))} :> {eff(v)}" for k, v in ent.items()) + ")"
        handler[(l, kind, src)] = inner
    hs = "(" + " @@ ".join(f"{T([l, k, s])} :> {v}" for (l, k, s), v in handler.items()) + ")" if handler else "<<>>"
    return {
        "Nodes": sset(nodes),
        "FlagsOf": fn({n: sset(g.flags[n]) for n in nodes}),
        "InitFlags": fn({n: sset(sorted(g.init_flags[n])) for n in nodes}),
        "Reads": fn({n: "<<" + ", ".join(f"<<{T(m)}, {sset(c)}>>" for m, c in g.reads[n]) + ">>" for n in nodes}),
        "Lst": fn({n: T(g.lst[n]) for n in nodes}),
        "Inputs": fn({n: T(g.inputs[n]) for n in nodes}),
        "Handler": hs,
        "Ops": sset(sorted(ops)),
        "OpRoots": fn({o: T(v["roots"]) for o, v in ops.items()}),
        "OpChanges": fn({o: sset(v["changes"]) for o, v in ops.items()}),
        "OpReads": fn({o: T(v["reads"]) for o, v in ops.items()}),
        "OpHit": fn({o: sset(sorted(consumers(g, v["changes"]))) for o, v in ops.items()}),
        "SideOp": fn({n: T(side_op(g, n) if side_op(g, n) in ops else "") for n in nodes}),
        "Evals": sset(evals),
    }


# ------------------------------------------------------------------ replay
def replay(ctx: Ctx, name, doc, upto, script, expect_states=None):
    """Run a sequence of actions on a fresh live graph; compare flags with the spec states (if
    given) and every evaluated value with a freshly built copy.  Returns number of flag mismatches."""
    real = Real(doc, upto)
    mism = 0
    stale_seen = False
    for k, act in enumerate(script):
        if act[0] == "op":
            try:
                real.apply(act[1])
            except Machinery:
                raise
            except Exception as e:
                ctx.violation(f"C11:{name}:update-raises:{act[1].split(':')[0]}:{type(real.g.nodes[act[1].split(':', 1)[1]]).__name__}",
                              f"zoo {name}: update {act[1]} raised {type(e).__name__}: {e}; history {script[:k + 1]}",
                              {"zoo": name, "script": script[:k + 1]})
                return mism
        else:
            n = act[1]
            try:
                got = real.eval_all(n)
                fresh = real.fresh()
                import torch
                torch.manual_seed(4711)
                want = [(nm, th()) for nm, th in observables(fresh[n])]
            except Exception as e:
                ctx.violation(f"C11:{name}:eval-raises:{type(real.g.nodes[n]).__name__}",
                              f"zoo {name}: evaluating {n} raised {type(e).__name__}: {e}; history {script[:k + 1]}",
                              {"zoo": name, "script": script[:k + 1]})
                return mism
            ctx.add("evaluations")
            for (nm, a), (_, b) in zip(got, want):
                if not same(a, b):
                    lastop = next((s[1] for s in reversed(script[:k]) if s[0] == "op"), "none")
                    ctx.violation(f"C11:{name}:stale:{lastop}->{n}.{nm}",
                                  f"zoo {name}: after {lastop}, {n}.{nm} ({type(real.g.nodes[n]).__name__}) returned {_short(a)} but a freshly "
                                  f"built copy gives {_short(b)}; history {script[max(0, k - 6):k + 1]}",
                                  {"zoo": name, "script": script[:k + 1]})
                    stale_seen = True
        if expect_states is not None and not stale_seen:
            spec_flags = expect_states[k]
            real_flags = real.g.get_flags()
            if any(frozenset(spec_flags.get(n, ())) != real_flags[n] for n in real_flags):
                mism += 1
    return mism


def _cls(real, op):
    if ":" not in op:
        return "-"
    n = op.split(":", 1)[1]
    return type(real.g.nodes[n]).__name__ if n in real.g.nodes else "-"


def _short(t):
    s = str(t.detach().reshape(-1)[:4].tolist())
    return s


def walks_from_graph(nodes, edges, init, amap, max_walks, max_len, seed):
    """Transition-covering walks over the TLC state graph: [(script, [flags after each step])]."""
    out_e = {}
    for a, b, lab in edges:
        out_e.setdefault(a, []).append((b, lab))
    rnd = random.Random(seed)
    unvisited = {(a, b, lab) for a, b, lab in edges if nodes[b]["bad"] == ""}
    walks = []
    while unvisited and len(walks) < max_walks:
        cur = init[0]
        script, states = [], []
        for _ in range(max_len):
            outs = [(b, lab) for b, lab in out_e.get(cur, []) if nodes[b]["bad"] == ""]
            if not outs:
                break
            fresh_e = [e for e in outs if (cur, e[0], e[1]) in unvisited]
            nxt, lab = rnd.choice(fresh_e) if fresh_e else rnd.choice(outs)
            unvisited.discard((cur, nxt, lab))
            script.append(_act(lab, amap))
            states.append(nodes[nxt]["flags"])
            cur = nxt
        walks.append((script, states))
    return walks, len(unvisited)


def _act(lab, amap):
    if lab in amap:
        return amap[lab]
    if lab.startswith('Update("'):
        return ("op", lab[len('Update("'):-2])
    if lab.startswith('Eval("'):
        return ("eval", lab[len('Eval("'):-2])
    raise Machinery(f"unknown action label {lab}")


def projections(ops, evals, quick):
    """Small sub-models: every op and every eval appears in at least one projection."""
    ops, evals = sorted(ops), list(evals)
    k_ops, k_ev = (4, 7) if quick else (5, 8)
    out = []
    n = max((len(ops) + k_ops - 1) // k_ops, (len(evals) + k_ev - 1) // k_ev, 1)
    for i in range(n):
        o = [ops[(i * k_ops + j) % len(ops)] for j in range(min(k_ops, len(ops)))] if ops else []
        e = [evals[(i * k_ev + j) % len(evals)] for j in range(min(k_ev, len(evals)))] if evals else []
        out.append((sorted(set(o)), sorted(set(e))))
    return out


def run_graph(ctx: Ctx, name, doc, upto, quick):
    t0 = time.time()
    real = Real(doc, upto)
    g = real.g
    table, raises = g.probe_handlers()
    g.reads = probe_reads(g)
    for (l, kind, src, msg) in raises:
        ctx.violation(f"C11:{name}:handler-raises:{type(g.nodes[l]).__name__}.{kind}",
                      f"zoo {name}: handler of {l} ({type(g.nodes[l]).__name__}) raised on a {kind} notification from {src}: {msg}",
                      {"zoo": name, "listener": l, "source": src})
    all_ops = choose_ops(real, 12, 6)
    all_evals = choose_evals(real, 40)
    tot_states = tot_edges = tot_cx = nwalks = mism = left = 0
    for op, v in all_ops.items():
        if v.get("raised"):
            ctx.violation(f"C11:{name}:update-raises:{op}", f"zoo {name}: update {op} raised {v['raised']}", {"zoo": name, "op": op})
    side = {o for o in all_ops if o.startswith("sample:")}
    user_ops = [o for o in all_ops if o not in side and not all_ops[o].get("raised")]
    # depth-one sweep over EVERY (operation, observable) pair from a warm state: the projections below pair each
    # operation with only some observables (an update through a view of a view went stale in an observable it
    # was never paired with in the quick tier)
    sweep_evals = all_evals if (name == "param-zoo" or not quick) else all_evals[:10]
    for o in user_ops:
        warm = [("eval", e) for e in sweep_evals]
        replay(ctx, name, doc, upto, warm + [("op", o)] + warm)
        ctx.add("depth_one_sweeps")
    for pi, (po, pe) in enumerate(projections(user_ops, all_evals, quick)):
        ops = {o: all_ops[o] for o in list(po) + sorted(side)}
        amap, lines = {}, []
        for i, o in enumerate(po):
            amap[f"Op_{i}"] = ("op", o)
            lines.append(f"Op_{i} == Update({tlc.tla(o)})")
        if not amap:
            continue
        for i, n in enumerate(pe):
            amap[f"Ev_{i}"] = ("eval", n)
            lines.append(f"Ev_{i} == Eval({tlc.tla(n)})")
        lines.append("MCNext == " + " \\/ ".join(amap))
        lines.append("MCSpec == Init /\\ [][MCNext]_vars")
        d = tlc.workdir("c11")
        consts = mc_constants(g, table, ops, pe)
        t, c = tlc.write_mc(d, "MC_ModelGraph", "ModelGraph", consts,
                            ["SPECIFICATION MCSpec", "VIEW View", "INVARIANT NoStale", "INVARIANT NeverRaises"],
                            extra_defs="\n".join(lines))
        res = tlc.run(t, c, workers=8, cont=True, coverage=False, dump=os.path.join(d, "graph"), tag="c11", timeout=600)
        ctx.tlc(res, f"ModelGraph {name}/{pi}: {len(g.nodes)} nodes, ops {po}, evals {pe}")
        nodes, edges, init = tlc.parse_dot(os.path.join(d, "graph.dot"))
        shutil.rmtree(d, ignore_errors=True)
        tot_states += res.distinct
        tot_edges += len(edges)
        tot_cx += len(res.violations)
        # design-level counterexamples -> confirm on the real graph
        seen_cx = set()
        ncx = 0
        for v in res.violations:
            script = [(st["last"][0], st["last"][1]) for _, st in v.trace[1:]]
            key = tuple(script[-2:])
            if not script or key in seen_cx or ncx >= 8:
                continue
            seen_cx.add(key)
            ncx += 1
            before = len(ctx.violations) + len(ctx.known_seen)
            replay(ctx, name, doc, upto, script)
            ctx.add("counterexamples_replayed")
            if len(ctx.violations) + len(ctx.known_seen) > before:
                ctx.add("counterexamples_confirmed")
        # transition coverage walks
        walks, lft = walks_from_graph(nodes, edges, init, amap, 6 if quick else 60, 30, ctx.seed + 11 + pi)
        left += lft
        for script, states in walks:
            mism += replay(ctx, name, doc, upto, script, states)
            ctx.add("traces_validated_against_impl")
            ctx.distinct((name, tuple(script)))
        nwalks += len(walks)
        if pi == 0:
            ctx.sample({"zoo": name, "nodes": len(g.nodes), "ops": po, "evals": pe,
                        "walk": walks[0][0][:12] if walks else []}, limit=6)
    ctx.add("flag_mismatch_steps", mism)
    print(f"  {name}: nodes={len(g.nodes)} ops={len(all_ops)} evals={len(all_evals)} states={tot_states} edges={tot_edges} "
          f"design-cx={tot_cx} walks={nwalks} uncovered-edges={left} flag-mismatch-steps={mism} ({time.time() - t0:.1f}s)", flush=True)


def run(ctx: Ctx):
    use_src()
    import logging
    logging.disable(logging.CRITICAL)
    quick = ctx.tier == "quick"
    ctx.assumptions += [
        "data-flow inputs are approximated by containment (_parameters, _models, wrapped parameters); a TLC counterexample is reported only when the real objects reproduce it against a freshly built copy",
        "update operations exercised: direct assignment, in-place + notification, assignment through View/Cat/Transformed holders; samplers' propose/reject and distribution draws are exercised by C15/C14",
    ]
    run_graph(ctx, "param-zoo", PARAM_ZOO, None, quick)
    for name, argv, upto in zoo_specs(ctx.tier):
        try:
            doc = zoo.cli_json(argv)
        except Exception as e:
            # the CLI crashes on some option combinations (counted by C19); such a zoo entry is skipped, not a verdict
            ctx.note(f"zoo entry {name} skipped: torchtree-cli did not emit a configuration ({str(e)[:90]})")
            ctx.add("zoo_entries_skipped")
            continue
        run_graph(ctx, name, doc, upto, quick)
    # in-place optimiser steps followed by the change notification: the real Optimizer loop replayed along Optimizer.tla's behaviours
    from . import optloop
    optloop.check(ctx, True)
    if ctx.cov.get("flag_mismatch_steps"):
        ctx.notes.append(f"MODEL-DRIFT: {ctx.cov['flag_mismatch_steps']} replayed steps where real cache flags differ from the ModelGraph state (extraction imprecise; verdicts come from the fresh-copy comparison)")
    ctx.cov["rule"] = ("walks covering transitions of the TLC state graph of each extracted model graph, replayed on real objects; "
                       "distinct = (zoo, action sequence); every evaluation is compared with a freshly built copy")
