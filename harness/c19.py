"""C19 - every configuration the CLI emits is runnable and targets the right density.

1. Option space: CliOptions.tla.  The harness builds a pairwise-covering suite over 23 abstract options (sub-command,
   data type, substitution model, categories, invariant sites, clock, heights, tree prior, grid options, branch prior,
   initialisation switches, frequencies, tip representation, coalescent switches, Jacobian switch, contemporaneous
   dates, variational family / distribution / divergence / sample switches, HMC switches) plus - thorough - the full
   product of the model-defining core; TLC checks the suite (well-formed, pairwise complete over accepted tests,
   every refused pair present, core complete) and says for each test whether the CLI must accept it.
2. Every test is run through the real torchtree-cli in-process: refused iff the spec says so; for accepted ones the
   emitted JSON is loaded exactly as torchtree does (samplers, optimisers, loggers included), the target density and
   its gradient must be finite at the initial point, requested initial values must be found in the constrained
   parameters, and target - constrained joint must equal log|det d(prior arguments)/d(raw parameters)| computed by
   automatic differentiation (terms supported only by parameters that carry no prior are optional).
3. CliConfig.tla judges an abstraction of every emitted document (ids unique, references resolve in loading order,
   raw parameters are leaves, and the Jacobian rule over transform chains: owed links present, nothing else, nothing
   twice).  A structural verdict that the numeric check does not confirm is reported as model drift, not as a
   violation.
"""
from __future__ import annotations

import itertools
import json
import multiprocessing
import os
import random
import re
import shutil

from . import cliconf, tlc, zoo
from .common import Ctx, Machinery, use_src
from .tlc import WORK

LEVEL = "exploration"

GRID_COALS = ["skygrid", "skyglide", "piecewise-constant", "piecewise-exponential", "piecewise-linear"]
PIECEWISE = GRID_COALS + ["skyride"]
DOMAIN = {
    "cmd": ["advi", "map", "mcmc", "hmc"],
    "data": ["nuc", "codon", "aa"],
    "model": ["JC69", "K80", "HKY", "SYM", "GTR", "SRD06", "MG94", "LG", "WAG"],
    "categories": ["1", "4"],
    "invariant": ["no", "yes"],
    "clock": ["none", "strict", "ucln", "horseshoe"],
    "heights": ["ratio", "shift"],
    "treeprior": ["none", "constant", "exponential", "skyride"] + GRID_COALS + ["bd-constant", "bdsk"],
    "gridopts": ["none", "both", "gridonly"],
    "brlenspr": ["exponential", "gammadir"],
    "clockpr": ["ctmcscale", "exponential", "exponential(500)"],
    "init": ["none", "rate_init", "rate_fixed", "root_height_init", "brlens_init", "coalescent_init", "heights_tree"],
    "freq": ["default", "explicit"],
    "tipopts": ["partials", "tip_states", "ambiguities"],
    "coalopt": ["none", "gmrf_integrated", "non_centered", "integrated", "temperature", "no_time_aware", "no_rescaling"],
    "include_jacobian": ["no", "yes"],
    "dates0": ["no", "yes"],
    "vi": ["meanfield", "fullrank"],
    "vidist": ["Normal", "LogNormal", "Gamma"],
    "divergence": ["ELBO", "KLpq"],
    "vimisc": ["none", "K_grad", "K_elbo", "entropy", "samples0", "iter0"],
    "hmcopt": ["none", "dense", "adapt_mass", "dualaveraging", "adaptive", "warmup", "split"],
}
CORE = ["cmd", "model", "clock", "heights", "treeprior"]


def pairs(o1, vs1, o2, vs2):
    return {(o1, a, o2, b) for a in vs1 for b in vs2}


def excl_pairs():
    D = DOMAIN
    e = set()
    e |= pairs("data", ["nuc"], "model", ["MG94", "LG", "WAG", "SRD06"])
    e |= pairs("data", ["codon"], "model", ["LG", "WAG"])
    e |= pairs("data", ["aa"], "model", [m for m in D["model"] if m not in ("LG", "WAG")])
    e |= pairs("clock", ["none"], "treeprior", [t for t in D["treeprior"] if t != "none"])
    e |= pairs("clock", ["none"], "heights", ["shift"])
    e |= pairs("clock", ["none"], "init", ["rate_init", "rate_fixed", "root_height_init", "coalescent_init", "heights_tree"])
    e |= pairs("clock", ["none"], "dates0", ["yes"])
    e |= pairs("clock", ["none"], "include_jacobian", ["yes"])
    e |= pairs("clock", ["strict", "ucln", "horseshoe"], "brlenspr", ["gammadir"])
    e |= pairs("clock", ["strict", "ucln", "horseshoe"], "init", ["brlens_init"])
    e |= pairs("clock", ["ucln", "horseshoe"], "init", ["rate_fixed"])
    e |= pairs("clockpr", ["exponential", "exponential(500)"], "clock", ["none", "ucln", "horseshoe"])       # the option only applies to the strict clock
    e |= pairs("clockpr", ["exponential", "exponential(500)"], "init", ["rate_fixed"])
    e |= pairs("gridopts", ["both", "gridonly"], "treeprior", ["none", "constant", "exponential", "bd-constant"])
    e |= pairs("gridopts", ["none", "gridonly"], "treeprior", ["bdsk"])
    e |= pairs("coalopt", ["gmrf_integrated", "non_centered", "no_time_aware", "no_rescaling"], "treeprior", [t for t in D["treeprior"] if t not in PIECEWISE])
    e |= pairs("coalopt", ["integrated"], "treeprior", [t for t in D["treeprior"] if t != "constant"])
    e |= pairs("coalopt", ["temperature"], "treeprior", [t for t in D["treeprior"] if t not in ("skygrid", "piecewise-constant")])
    e |= pairs("init", ["coalescent_init"], "treeprior", [t for t in D["treeprior"] if t not in ("constant", "skyride")])
    e |= pairs("init", ["coalescent_init"], "coalopt", ["integrated", "non_centered"])
    e |= pairs("freq", ["explicit"], "model", ["JC69", "SRD06", "MG94", "LG", "WAG"])
    e |= pairs("tipopts", ["tip_states", "ambiguities"], "data", ["codon", "aa"])
    e |= pairs("dates0", ["yes"], "treeprior", ["bd-constant", "bdsk"])
    e |= pairs("dates0", ["yes"], "init", ["rate_init", "heights_tree", "root_height_init"])
    for opt in ("vi", "vidist", "divergence", "vimisc"):
        e |= pairs(opt, D[opt][1:], "cmd", ["map", "mcmc", "hmc"])
    e |= pairs("hmcopt", D["hmcopt"][1:], "cmd", ["advi", "map", "mcmc"])
    e |= pairs("vi", ["fullrank"], "vidist", ["LogNormal", "Gamma"])
    e |= pairs("vimisc", ["entropy"], "divergence", ["KLpq"])
    e |= pairs("vimisc", ["K_grad", "K_elbo"], "divergence", ["KLpq"])
    return e


def reject_pairs():
    r = set()
    r |= pairs("treeprior", ["skyride"], "gridopts", ["both", "gridonly"])
    r |= pairs("treeprior", GRID_COALS, "gridopts", ["none", "gridonly"])
    # refused with NotImplementedError by the sampler builders (a parameter declared with full_like has no length)
    r |= pairs("cmd", ["hmc", "mcmc"], "clock", ["horseshoe"])
    # argparse_utils.list_of_float compares the list of values with the expected length (list != int): every value of
    # --coalescent_integrated is refused
    r |= pairs("coalopt", ["integrated"], "treeprior", ["constant"])
    # not refusals but crashes before anything is emitted (advi.py:create_meanfield: UnboundLocalError / TypeError): the two
    # documented alternatives to --distribution Normal never produce a configuration
    r |= pairs("vidist", ["LogNormal", "Gamma"], "cmd", ["advi"])
    return r


def to_opts(t: dict) -> dict:
    dated = t["clock"] != "none"
    fx = {"nuc": "nuc", "codon": "codon", "aa": "aa"}[t["data"]] + ("-dated" if dated else "-undated")
    o = {"cmd": t["cmd"], "fixture": fx, "model": t["model"], "categories": int(t["categories"]), "invariant": t["invariant"] == "yes"}
    if t["model"] == "MG94":
        o["genetic_code"] = 0
    if dated:
        o["clock"], o["heights"] = t["clock"], t["heights"]
    tp = t["treeprior"]
    if tp == "bd-constant":
        o["birth_death"] = "constant"
    elif tp == "bdsk":
        o["birth_death"] = "bdsk"
    elif tp != "none":
        o["coalescent"] = tp
    if t["gridopts"] in ("both", "gridonly"):
        o["grid"] = 2 if tp == "bdsk" else 3
    if t["gridopts"] == "both" and tp != "bdsk":
        o["cutoff"] = 5
    if not dated and t["brlenspr"] == "gammadir":
        o["brlenspr"] = "gammadir"
    if dated and t.get("clockpr", "ctmcscale") != "ctmcscale":
        o["clockpr"] = t["clockpr"]
    init = t["init"]
    if init == "rate_init":
        o["rate_init"] = 0.0123
    elif init == "rate_fixed":
        o["rate"] = 0.0057
    elif init == "root_height_init":
        o["root_height_init"] = 25.0
    elif init == "brlens_init":
        o["brlens_init"] = 0.07
    elif init == "coalescent_init":
        o["coalescent_init"] = 37.0
    elif init == "heights_tree":
        o["heights_init"] = "tree"
    if t["freq"] == "explicit":
        o["frequencies"] = "0.1,0.2,0.3,0.4"
    if t["tipopts"] == "tip_states":
        o["use_tip_states"] = True
    elif t["tipopts"] == "ambiguities":
        o["use_ambiguities"] = True
    co = t["coalopt"]
    if co == "gmrf_integrated":
        o["gmrf_integrated"] = True
    elif co == "non_centered":
        o["non_centered"] = True
    elif co == "integrated":
        o["coalescent_integrated"] = "1,1"
    elif co == "temperature":
        o["coalescent_temperature"] = 0.5
    elif co == "no_time_aware":
        o["disable_time_aware"] = True
    elif co == "no_rescaling":
        o["disable_gmrf_rescaling"] = True
    if t["include_jacobian"] == "yes":
        o["include_jacobian"] = True
    if t["dates0"] == "yes":
        o["dates"] = "0"
    if t["cmd"] == "advi":
        if t["vi"] != "meanfield":
            o["variational"] = t["vi"]
        if t["vidist"] != "Normal":
            o["distribution"] = t["vidist"]
        if t["divergence"] != "ELBO":
            o["divergence"] = t["divergence"]
        vm = t["vimisc"]
        if vm == "K_grad":
            o["K_grad_samples"] = 3
        elif vm == "K_elbo":
            o["K_elbo_samples"] = 3
        elif vm == "entropy":
            o["entropy"] = True
        elif vm == "samples0":
            o["samples"] = 0
        elif vm == "iter0":
            o["iter"] = 0
    if t["cmd"] == "hmc":
        ho = t["hmcopt"]
        if ho == "dense":
            o["mass_matrix"] = "dense"
        elif ho == "adapt_mass":
            o["adapt_mass_matrix"] = True
        elif ho in ("dualaveraging", "adaptive"):
            o["adapt_step_size"] = ho
        elif ho == "warmup":
            o["warmup"] = 10
        elif ho == "split":
            o["split"] = True
    return o


# ------------------------------------------------------------------ suite generation
def gen_suite(rnd, with_core):
    opts = list(DOMAIN)
    excl = excl_pairs()
    rej = reject_pairs()
    bad = set()
    for (a, x, b, y) in excl | rej:
        bad.add((a, x, b, y))
        bad.add((b, y, a, x))

    def compatible(test, o, v):
        return all((o, v, p, w) not in bad for p, w in test.items())
    uncovered = set()
    for o1, o2 in itertools.combinations(opts, 2):
        for v1 in DOMAIN[o1]:
            for v2 in DOMAIN[o2]:
                if (o1, v1, o2, v2) not in bad:
                    uncovered.add((o1, v1, o2, v2))
    tests, infeasible = [], set()

    def complete(test):
        order = [o for o in opts if o not in test]
        rnd.shuffle(order)
        for o in order:
            cands = [v for v in DOMAIN[o] if compatible(test, o, v)]
            if not cands:
                return None
            best, bv = -1, None
            for v in cands:
                gain = sum(1 for p, w in test.items() if ((p, w, o, v) in uncovered or (o, v, p, w) in uncovered))
                gain += rnd.random() * 0.5
                if gain > best:
                    best, bv = gain, v
            test[o] = bv
        return test

    def mark(test):
        for o1, o2 in itertools.combinations(opts, 2):
            uncovered.discard((o1, test[o1], o2, test[o2]))
            uncovered.discard((o2, test[o2], o1, test[o1]))
    if with_core:
        for combo in itertools.product(*[DOMAIN[o] for o in CORE]):
            seed = dict(zip(CORE, combo))
            if any((a, seed[a], b, seed[b]) in bad for a, b in itertools.permutations(CORE, 2)):
                continue
            t = None
            for _ in range(20):
                t = complete(dict(seed))
                if t:
                    break
            if t:
                tests.append(t)
                mark(t)
    while uncovered:
        o1, v1, o2, v2 = rnd.choice(sorted(uncovered))
        t = None
        for _ in range(30):
            t = complete({o1: v1, o2: v2})
            if t:
                break
        if t is None:
            infeasible.add((o1, v1, o2, v2))
            uncovered.discard((o1, v1, o2, v2))
            continue
        tests.append(t)
        mark(t)
    # one test per refused pair
    for (a, x, b, y) in sorted(rej):
        exb = set()
        for q in excl:
            exb.add(q)
            exb.add((q[2], q[3], q[0], q[1]))
        t = {a: x, b: y}
        order = [o for o in opts if o not in t]
        ok = True
        for o in order:
            c = [v for v in DOMAIN[o] if all((o, v, p, w) not in exb for p, w in t.items())]
            if not c:
                ok = False
                break
            t[o] = c[0]
        if ok:
            tests.append(t)
    return tests, infeasible, excl, rej


def run_options_tlc(ctx, tests, infeasible, excl, rej, with_core):
    q = tlc.tla
    d = tlc.workdir("c19")
    tup = lambda s: "{" + ", ".join("<<" + ", ".join(q(x) for x in p) + ">>" for p in sorted(s)) + "}"
    consts = {
        "Options": q(set(DOMAIN)),
        "Domain": "[o \\in c_Options |-> CASE " + " [] ".join(f"o = {q(o)} -> {q(set(v))}" for o, v in DOMAIN.items()) + "]",
        "Excl": tup(excl), "Reject": tup(rej), "Infeasible": tup(infeasible),
        "Core": q(set(CORE)) if with_core else "{}",
        "CoreSpace": ("{[" + ", ".join(f"{o} |-> v_{o}" for o in CORE) + "] : " + ", ".join(f"v_{o} \\in {q(set(DOMAIN[o]))}" for o in CORE) + "}") if with_core else "{}",
        "Tests": "<<" + ", ".join("[" + ", ".join(f"{o} |-> {q(t[o])}" for o in DOMAIN) + "]" for t in tests) + ">>",
        "Emit": "TRUE",
    }
    t_, c_ = tlc.write_mc(d, "MC_CliOptions", "CliOptions", consts, ["SPECIFICATION Spec", "INVARIANT SuiteOK", "CHECK_DEADLOCK FALSE"])
    res = tlc.run(t_, c_, workers=1, tag="c19", timeout=1500, heap="6g")
    shutil.rmtree(d, ignore_errors=True)
    ctx.tlc(res, f"CliOptions: {len(tests)} tests, {len(excl)} excluded pairs, {len(rej)} refused pairs, core={'on' if with_core else 'off'}")
    if res.violations:
        raise Machinery(f"the generated suite does not satisfy CliOptions.Suite ({res.violations[0].name})")
    exp = {}
    for p in res.prints:
        if isinstance(p, tuple) and len(p) == 2 and p[0] == "ACCEPT":
            seq = p[1]
            for i, v in enumerate(seq if isinstance(seq, (tuple, list)) else [seq[k] for k in sorted(seq)]):
                exp[i] = bool(v)
    if len(exp) != len(tests):
        raise Machinery(f"CliOptions emitted {len(exp)} verdicts for {len(tests)} tests")
    return exp


# ------------------------------------------------------------------ structural abstraction for CliConfig.tla
DATA_KEYS = ("file_name", "newick", "sequence", "taxon", "lr_lambda", "distribution", "transform", "algorithm", "scheduler", "checkpoint", "type", "id",
             "genetic_code", "delimiter", "format")


def struct_abstract(doc, cmd):
    ids = {}

    def collect(o):
        if isinstance(o, dict):
            if "id" in o and "type" in o:
                ids.setdefault(o["id"], []).append(o)
            for v in o.values():
                collect(v)
        elif isinstance(o, list):
            for v in o:
                collect(v)
    collect(doc)
    tops = []
    for top in doc:
        defs, refs, seen, dups = set(), set(), set(), set()

        def walk(o, key=None):
            if isinstance(o, dict):
                if "id" in o and "type" in o:
                    if o["id"] in seen:
                        dups.add(o["id"])
                    seen.add(o["id"])
                    defs.add(o["id"])
                for k, v in o.items():
                    if k not in ("id", "type"):
                        walk(v, k)
            elif isinstance(o, list):
                for v in o:
                    walk(v, key)
            elif isinstance(o, str) and key not in DATA_KEYS and o in ids:
                refs.add(o)
        walk(top)
        tops.append({"defs": defs, "refs": refs, "dups": dups})
    link, hasjac = {}, set()
    for i, objs in ids.items():
        o = objs[0]
        if o.get("type") == "TransformedParameter":
            x = o.get("x")
            xs = [(e if isinstance(e, str) else e.get("id")) for e in (x if isinstance(x, list) else [x])]
            link[i] = set(xs)
            tr = str(o.get("transform", ""))
            zero = (tr.endswith("AffineTransform") and o.get("parameters", {}).get("scale") == 1.0) or tr.endswith("CumSumTransform") \
                or tr.endswith("RescaledRateTransform")
            if not zero:
                hasjac.add(i)
        elif o.get("type") in ("ReparameterizedTimeTreeModel", "FlexibleTimeTreeModel", "TimeTreeModel"):
            xs = set()
            for k in ("ratios", "root_height", "shifts", "internal_heights"):
                if k in o:
                    xs.add(o[k] if isinstance(o[k], str) else o[k].get("id"))
            link[i] = xs
            if "ratios" in o:
                hasjac.add(i)
        elif o.get("type") == "ViewParameter":
            p = o.get("parameter")
            link[i] = {p if isinstance(p, str) else p.get("id")}
    prior = ids.get("prior", [None])[0]
    priorargs = set()

    def resolve(e):
        return ids[e][0] if isinstance(e, str) and e in ids else e

    def comp_args(c):
        c = resolve(c)
        if not isinstance(c, dict):
            return
        ty = c.get("type", "")
        if ty == "JointDistributionModel":
            for e in c.get("distributions", []):
                comp_args(e)
        elif ty == "TransformedParameter":
            return
        elif "Coalescent" in ty or ty in ("BDSKModel", "BirthDeathModel"):
            tm = c.get("tree_model")
            priorargs.add(tm if isinstance(tm, str) else tm.get("id"))
        elif ty == "CompoundGammaDirichletPrior":
            tm = resolve(c.get("tree_model"))
            bl = tm.get("branch_lengths")
            priorargs.add(bl if isinstance(bl, str) else bl.get("id"))
        elif "x" in c:
            x = c["x"]
            for e in (x if isinstance(x, list) else [x]):
                priorargs.add(e if isinstance(e, str) else e.get("id"))
    if prior:
        comp_args(prior)
    jj = ids.get("joint.jacobian", [None])[0]
    target_is_jj = cmd != "map"
    jac = [e if isinstance(e, str) else e.get("id") for e in (jj.get("distributions", []) if jj and target_is_jj else [])]
    jac = [e for e in jac if e != "joint"]
    return {"tops": tops, "link": link, "hasjac": hasjac, "priorargs": priorargs, "jac": jac}


def run_config_tlc(ctx, items):
    """items: [(name, abstraction, raw ids, check)] -> {name: set of violated invariants}"""
    q = tlc.tla
    recs = []
    for name, a, raw, check in items:
        tops = "<<" + ", ".join(f"[defs |-> {q(set(t['defs']))}, refs |-> {q(set(t['refs']))}, dups |-> {q(set(t['dups']))}]" for t in a["tops"]) + ">>"
        link = "(" + " @@ ".join(f"{q(k)} :> {q(set(v))}" for k, v in a["link"].items()) + ")" if a["link"] else "<<>>"
        recs.append(f"[name |-> {q(name)}, tops |-> {tops}, link |-> {link}, hasjac |-> {q(set(a['hasjac']))}, priorargs |-> {q(set(a['priorargs']))}, "
                    f"jac |-> {q(list(a['jac']))}, raw |-> {q(list(raw))}, check |-> {q(bool(check))}]")
    d = tlc.workdir("c19")
    t_, c_ = tlc.write_mc(d, "MC_CliConfig", "CliConfig", {"Configs": "<<" + ",\n ".join(recs) + ">>"},
                          ["SPECIFICATION Spec", "INVARIANT Structure", "INVARIANT JacobianRule", "CHECK_DEADLOCK FALSE"])
    res = tlc.run(t_, c_, workers=8, cont=True, tag="c19", timeout=1500, heap="6g")
    shutil.rmtree(d, ignore_errors=True)
    ctx.tlc(res, f"CliConfig: {len(items)} emitted documents")
    out = {}
    for v in res.violations:
        st = v.trace[-1][1] if v.trace else {}
        idx = st.get("c")
        if idx is not None:
            out.setdefault(items[idx - 1][0], set()).add(v.name)
    return out


# ------------------------------------------------------------------ running the real CLI
def root_cause(msg):
    return re.sub(r"[0-9]+(\.[0-9]+)?", "#", msg or "")[:90]


def one(job):
    idx, t = job
    import logging
    import warnings
    logging.disable(logging.CRITICAL)
    warnings.filterwarnings("ignore")
    o = to_opts(t)
    wd = os.path.join(WORK, f"c19run-{os.getpid()}")
    try:
        r = cliconf.run_config(o, wd)
    except Exception as e:            # machinery
        return {"idx": idx, "machinery": f"{type(e).__name__}: {e}"}
    out = {"idx": idx, "stage": r.stage, "error": r.error, "problems": r.problems, "info": {k: v for k, v in r.info.items() if k != "dic"}, "argv": cliconf.argv_of(o)}
    if r.doc is not None:
        try:
            out["abs"] = struct_abstract(r.doc, t["cmd"])
        except Exception as e:
            out["abs_error"] = f"{type(e).__name__}: {e}"
    if r.stage == "ok" and getattr(r, "dic", None) is not None:
        out["init"] = initial_values(o, r.dic)
    return out


def initial_values(o, dic):
    """[(what, requested, found)] for the initialisation switches."""
    import torch
    res = []

    def val(i):
        return dic[i].tensor.detach().reshape(-1).tolist() if i in dic else None
    if "rate_init" in o:
        if "branchmodel.rate" in dic:
            res.append(("rate_init", [o["rate_init"]], val("branchmodel.rate")))
        elif "branchmodel.rates" in dic:
            n = dic["branchmodel.rates"].tensor.numel()
            res.append(("rate_init", [o["rate_init"]] * n, val("branchmodel.rates")))
    if "rate" in o:
        res.append(("rate", [o["rate"]], val("branchmodel.rate")))
    if "root_height_init" in o:
        res.append(("root_height_init", [o["root_height_init"]], val("tree.root_height") if "tree.root_height" in dic else
                    (dic["tree"].node_heights[..., -1:].detach().tolist() if "tree" in dic else None)))
    if "brlens_init" in o and "tree.blens" in dic:
        n = dic["tree.blens"].tensor.numel()
        res.append(("brlens_init", [o["brlens_init"]] * n, val("tree.blens")))
    if "frequencies" in o and "substmodel.frequencies" in dic:
        res.append(("frequencies", [float(x) for x in o["frequencies"].split(",")], val("substmodel.frequencies")))
    if "coalescent_init" in o and "coalescent.theta" in dic:
        n = dic["coalescent.theta"].tensor.numel()
        res.append(("coalescent_init", [o["coalescent_init"]] * n, val("coalescent.theta")))
    return res


# Raw parameters that torchtree-cli hands to the sampler without any explicit prior on the pinned tree (measured over the
# thorough suite): the density over them is flat on the constrained scale (their Jacobian term is counted).  A parameter
# outside this list that turns up without a prior is reported: the configuration no longer targets the density it names.
IMPLICIT_FLAT = [
    (r"^sitemodel(\.12|\.3)?\.pinv\.unres$", lambda t: True),
    (r"^coalescent\.growth$", lambda t: t["treeprior"] == "piecewise-exponential"),
    (r"^bdsk\.s\.unres$", lambda t: t["treeprior"] == "bdsk"),
    (r"^constant\.psi\.unres$", lambda t: t["treeprior"] == "bd-constant"),
    (r"^tree\.(ratios|shifts|root_height|root_height\.unshifted)\.unres$", lambda t: t["treeprior"] == "none"),
    (r"^substmodel\.kappa\.unres$", lambda t: t["model"] == "K80"),
    (r"^srd06\.mu\.unres$", lambda t: t["model"] == "SRD06"),
]


def implicit_flat(rid, t):
    return any(re.match(pat, rid) and cond(t) for pat, cond in IMPLICIT_FLAT)


def sig(t, keys):
    return ",".join(f"{k}={t[k]}" for k in keys)


def run(ctx: Ctx):
    use_src()
    rnd = random.Random(ctx.seed + 19)
    quick = ctx.tier == "quick"
    tests, infeasible, excl, rej = gen_suite(rnd, with_core=not quick)
    if infeasible:
        ctx.cov["infeasible_pairs"] = sorted(map(str, infeasible))[:20]
    expected = run_options_tlc(ctx, tests, infeasible, excl, rej, with_core=not quick)
    with multiprocessing.get_context("fork").Pool(14) as pool:
        results = pool.map(one, list(enumerate(tests)), chunksize=4)
    for wd in os.listdir(WORK):
        if wd.startswith("c19run-"):
            shutil.rmtree(os.path.join(WORK, wd), ignore_errors=True)
    items = []
    for r in results:
        t = tests[r["idx"]]
        if "machinery" in r:
            raise Machinery(f"test {t}: {r['machinery']}")
        ctx.add("evaluations")
        ctx.add(f"stage_{r['stage']}")
        ctx.distinct(json.dumps(t, sort_keys=True), True)
        rep = {"options": t, "argv": r.get("argv"), "stage": r["stage"], "error": r["error"]}
        refused = r["stage"] == "rejected" or (r["stage"] == "emit" and "NotImplementedError" in (r["error"] or ""))
        if not expected[r["idx"]]:
            if not refused and r["stage"] != "emit":
                ctx.note(f"MODEL-DRIFT bind:accepted CliOptions.tla says torchtree-cli refuses {sig(t, ['cmd', 'clock', 'treeprior', 'gridopts'])}; it reached stage {r['stage']}")
                ctx.add("model_drift")
            else:
                ctx.add("refusals_as_specified")
            continue
        if refused:
            ctx.note(f"MODEL-DRIFT bind:refused torchtree-cli refuses a combination CliOptions.tla accepts: {r['error']} [{' '.join(r['argv'][:1] + r['argv'][5:])}]")
            ctx.add("model_drift")
            continue
        if r["stage"] == "emit":
            # the CLI crashed: nothing was emitted, so the property (about emitted configurations) does not apply; counted
            ctx.add("cli_crashes")
            ctx.cov.setdefault("cli_crash_samples", [])
            if len(ctx.cov["cli_crash_samples"]) < 10:
                ctx.cov["cli_crash_samples"].append(f"{r['error']} [{' '.join(r['argv'][5:])}]")
            continue
        if r["stage"] in ("load", "evaluate"):
            ctx.violation(f"C19:{r['stage']}:{root_cause(r['error'])}", f"torchtree-cli {' '.join(r['argv'][:1] + r['argv'][5:])}: the emitted configuration "
                          f"{'is not accepted by torchtree' if r['stage'] == 'load' else 'cannot be evaluated'}: {r['error']}", rep)
            continue
        for kind, text in r["problems"]:
            if kind == "jacobian":
                key = "C19:jacobian:map:constrained-joint-without-jacobian" if t["cmd"] == "map" else \
                    f"C19:jacobian:{sig(t, ['clock', 'heights', 'treeprior', 'coalopt'])}"
            elif kind == "gradient-nonfinite" and "substmodel" in text:
                key = f"C19:gradient-nonfinite:substmodel:{t['model']}"
            else:
                key = f"C19:{kind}:{sig(t, ['model', 'clock', 'heights', 'treeprior', 'coalopt'])}"
            ctx.violation(key, f"torchtree-cli {' '.join(r['argv'][:1] + r['argv'][5:])}: {text}", rep)
        for what, want, got in r.get("init", []):
            ok = got is not None and len(got) == len(want) and all(abs(a - b) <= 1e-9 * max(1.0, abs(b)) for a, b in zip(got, want))
            ctx.add("initial_values_checked")
            if not ok:
                ctx.violation(f"C19:init:{what}:{sig(t, ['clock', 'heights', 'treeprior'])}", f"torchtree-cli {' '.join(r['argv'][:1] + r['argv'][5:])}: requested {what} = {want}, "
                              f"the constrained parameter starts at {got}", rep)
        for rid in r["info"].get("noprior", []):
            ctx.cov.setdefault("raw_without_prior", {}).setdefault(rid, 0)
            ctx.cov["raw_without_prior"][rid] += 1
            if not implicit_flat(rid, t):
                ctx.violation(f"C19:no-prior:{rid}:{t['model']}", f"torchtree-cli {' '.join(r['argv'][:1] + r['argv'][5:])}: {rid} is handed to the "
                              f"{'optimiser' if t['cmd'] in ('map', 'advi') else 'sampler'} although no prior is placed on it (not one of the parameters the CLI "
                              "leaves with an implicit flat prior): the target is not the density of the requested model", rep)
        if r["info"].get("jacobian_undecided"):
            ctx.add("jacobian_rule_undecided")
            ctx.cov.setdefault("jacobian_undecided_samples", [])
            if len(ctx.cov["jacobian_undecided_samples"]) < 8:
                ctx.cov["jacobian_undecided_samples"].append(f"{r['info']['jacobian_undecided']} [{' '.join(r['argv'][5:])}]")
        elif "jacobian" in r["info"]:
            ctx.add("jacobian_rule_decided")
        ctx.add("traces_validated_against_impl")
        if r["idx"] % 37 == 0:
            ctx.sample({"options": t, "argv": r["argv"][5:], "raw": r["info"].get("raw"), "target": r["info"].get("target"),
                        "jacobian_rule": [x if not isinstance(x, list) else x[:2] for x in (r["info"].get("jacobian") or [])][:2]}, limit=5)
        if "abs" in r:
            numeric_bad = any(k == "jacobian" for k, _ in r["problems"])
            items.append((f"t{r['idx']}", r["abs"], [x for x in r["info"].get("raw", []) if x], t["cmd"] != "map" and not (t["cmd"] == "advi" and t["vimisc"] == "iter0"), numeric_bad, t))
    verdicts = run_config_tlc(ctx, [(n, a, raw, chk) for n, a, raw, chk, _, _ in items])
    for n, a, raw, chk, numeric_bad, t in items:
        v = verdicts.get(n, set())
        if "JacobianRule" in v and not numeric_bad:
            ctx.add("structural_only_jacobian_flags")
            ctx.note(f"MODEL-DRIFT bind:jacobian-rule CliConfig.tla flags the Jacobian list of {sig(t, ['cmd', 'clock', 'heights', 'treeprior', 'coalopt'])} "
                     f"(members {a['jac']}, prior arguments {sorted(a['priorargs'])}); the numeric rule holds")
        if "Structure" in v:
            ctx.add("structural_flags")
            ctx.note(f"MODEL-DRIFT bind:structure CliConfig.tla flags the document of {sig(t, ['cmd', 'model', 'clock', 'treeprior'])}; torchtree loads it")
    # the same model under the four sub-commands: the set of parameters handed to the sampler / optimiser must be the same (a parameter that
    # one builder silently leaves fixed is not the model the options name)
    base = {o: DOMAIN[o][0] for o in DOMAIN}
    models = [dict(data="codon", model="SRD06", clock="strict", treeprior="constant"), dict(data="nuc", model="HKY", categories="4", invariant="yes", clock="none"),
              dict(data="nuc", model="GTR", clock="ucln", treeprior="skyride"), dict(data="nuc", model="JC69", clock="strict", heights="shift", treeprior="skygrid", gridopts="both"),
              dict(data="nuc", model="HKY", clock="strict", treeprior="bdsk", gridopts="both")]
    if not quick:
        models += [dict(data="codon", model="SRD06", clock="none"), dict(data="aa", model="LG", categories="4", clock="strict", treeprior="exponential"),
                   dict(data="nuc", model="K80", clock="strict", treeprior="piecewise-linear", gridopts="both", coalopt="non_centered")]
    for mcfg in models:
        raws = {}
        for cmd in DOMAIN["cmd"]:
            t = dict(base, **mcfg, cmd=cmd)
            r = one((0, t))
            if r.get("stage") == "ok":
                raws[cmd] = sorted(x for x in r["info"].get("raw", []) if x)
        ctx.add("cross_command_models")
        ref_cmd = next((c for c in ("hmc", "mcmc", "map", "advi") if c in raws), None)
        for cmd, ids in raws.items():
            if ids != raws[ref_cmd]:
                ctx.violation(f"C19:estimated-parameters-differ:{cmd}:{mcfg['model']}", f"model {mcfg}: torchtree-cli {cmd} estimates {ids}, {ref_cmd} estimates {raws[ref_cmd]} "
                              f"(only in {cmd}: {sorted(set(ids) - set(raws[ref_cmd]))}; missing in {cmd}: {sorted(set(raws[ref_cmd]) - set(ids))})", {"model": mcfg, "raws": raws})
    ctx.cov["suite"] = {"tests": len(tests), "excluded_pairs": len(excl), "refused_pairs": len(rej), "infeasible_pairs": len(infeasible), "core": not quick}
    ctx.cov["rule"] = ("one evaluation = one option combination run through the real CLI and torchtree loader; the suite is pairwise complete over "
                       "the 21 abstract options (checked by TLC), thorough adds the full product of sub-command x model x clock x heights x tree prior")
    ctx.assumptions += ["explored space: pairs listed in Excl (tree prior without clock, data / model mismatches, switches that do not apply) are outside",
                        "a CLI crash emits nothing, so it is counted (cli_crashes) but is not a violation of a property about emitted configurations",
                        "Jacobian terms supported only by raw parameters that carry no prior (e.g. the proportion of invariant sites) are optional",
                        "fixtures: 4 and 6 taxa; nucleotide, codon and amino-acid alignments; dated (years in names) and undated"]
