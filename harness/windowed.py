"""WindowedAdaptation.tla <-> inference/hmc/stan_adaptation.py:StanWindowedAdaptation.

Every schedule TLC explores (warm-up length, initial / terminal buffer, base window - including configurations that
trigger the 15% / 75% / 10% fallback) is replayed on the real class with counting adaptors: per call of learn() the
number of step-size updates, mass-matrix updates and whether both adaptors were restarted must equal the behaviour's
history (binding).  Where the transcribed schedule departs from the Stan scheme the docstring cites (SlowOnce,
WindowsTile, FastOnly) is reported as an observation - it is outside the twenty listed properties.
"""
from __future__ import annotations

import contextlib
import io
import shutil

from . import tlc
from .common import Ctx, Machinery


class _Count:
    def __init__(self):
        self.learned = 0
        self.restarted = 0

    def learn(self, *a, **k):
        self.learned += 1

    def restart(self):
        self.restarted += 1

    def __bool__(self):
        return True


def check(ctx: Ctx, quick: bool):
    from torchtree.inference.hmc.stan_adaptation import StanWindowedAdaptation
    class Concrete(StanWindowedAdaptation):          # the shipped class leaves two abstract methods of Adaptor undefined and cannot
        def _state_dict(self):                      # be instantiated as it is (reported in the evidence); the schedule is untouched
            return {}

        def load_state_dict(self, state_dict):
            pass
    try:
        StanWindowedAdaptation(None, None, 20, 1, 1, 1)
        instantiable = True
    except TypeError:
        instantiable = False
    consts = {"Warmups": "{20, 25, 40}" if quick else "{20, 21, 25, 33, 40, 64}", "Inits": "{0, 3, 10}" if quick else "{0, 1, 3, 10, 15, 75}",
              "Terms": "{0, 2, 10}" if quick else "{0, 1, 2, 10, 50}", "Bases": "{1, 4, 25}" if quick else "{1, 2, 4, 5, 25}", "Emit": "FALSE"}
    d = tlc.workdir("wa")
    t, c = tlc.write_mc(d, "MC_WindowedAdaptation", "WindowedAdaptation", consts,
                        ["SPECIFICATION Spec", "INVARIANT SlowOnce", "INVARIANT FastOnly", "INVARIANT WindowsTile", "CHECK_DEADLOCK FALSE"])
    res = tlc.run(t, c, workers=8, cont=True, tag="wa", timeout=900)
    consts["Emit"] = "TRUE"
    t2, c2 = tlc.write_mc(d, "MC_WindowedAdaptationE", "WindowedAdaptation", consts, ["SPECIFICATION Spec", "CHECK_DEADLOCK FALSE"])
    em = tlc.run(t2, c2, workers=1, tag="wa", timeout=900)
    shutil.rmtree(d, ignore_errors=True)
    ctx.tlc(res, "WindowedAdaptation")
    design = {}
    for v in res.violations:
        st = v.trace[-1][1] if v.trace else {}
        design.setdefault(v.name, []).append((st.get("W"), st.get("ini"), st.get("trm"), st.get("bas")))
    scheds = [p[1] for p in em.prints if isinstance(p, tuple) and len(p) == 2 and p[0] == "SCHEDULE"]
    if not scheds:
        raise Machinery("WindowedAdaptation.tla emitted no schedule")
    for s in scheds:
        W, ini, trm, bas, hist = s["W"], s["init"], s["term"], s["base"], s["hist"]
        ss, mm = _Count(), _Count()
        with contextlib.redirect_stdout(io.StringIO()):
            a = Concrete(ss, mm, W, ini, trm, bas)
        real = []
        for i in range(W + 2):
            b = (ss.learned, mm.learned, mm.restarted)
            a.learn(None, i, True)
            real.append({"ss": ss.learned - b[0], "mm": mm.learned - b[1], "restart": mm.restarted > b[2]})
        want = [{"ss": h["ss"], "mm": h["mm"], "restart": bool(h["restart"])} for h in hist]
        ctx.add("adaptation_schedules_replayed")
        if real != want:
            k = next(i for i, (x, y) in enumerate(zip(real, want)) if x != y)
            ctx.note(f"MODEL-DRIFT bind:windowed-adaptation warm-up {W}, buffers {ini}/{trm}, base {bas}: call {k} does {real[k]}, WindowedAdaptation.tla says {want[k]}")
            ctx.add("model_drift")
        else:
            ctx.add("adaptation_schedules_matching")
    ctx.cov["windowed_adaptation"] = {"schedules": len(scheds), "shipped_class_instantiable": instantiable,
                                      "departures_from_the_stan_scheme": {k: {"count": len(v), "examples(W,init,term,base)": v[:3]} for k, v in design.items()}}
