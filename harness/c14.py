"""C14 - variational objectives are exact at the true posterior.

1. TLC, reduction layer: VarObjective.tla transcribes the sample-dimension reductions of ELBO (Monte-Carlo,
   analytic entropy, multi-sample), VR, CUBO and KLpq over symbolic log densities (linear forms with exact
   rational coefficients, logsumexp in a shift-invariant normal form) for every sample shape [K] and [N,K]
   and checks (a) Impl = definition and (b) when log p - log q = C at every draw the result is exactly C.
2. spec -> code (reduction layer): every emitted (objective, shape, order) is run on the REAL objective class
   with stub p / q models returning prescribed tensors; the real value must equal the numeric value of the
   symbolic result emitted by TLC (binding) and, with log p - log q constant, that constant (the property).
3. TLC, protocol layer: VarProtocol.tla - draws written into the shared parameter, cache invalidation,
   optimiser steps, outside sampling and outside evaluations; Paired / Fresh / Shaped / CachesCurrent.
   Transition-covering walks of the state graph are replayed on real objectives over a real conjugate model:
   after every request the returned value is recomputed from the draw now stored in x with torch.distributions.
4. Real conjugate pairs (gamma-exponential, gamma-Poisson, normal-normal, beta-binomial (plain and through a
   sigmoid-transformed parameter), log-normal prior through exp transform + Jacobian, multivariate normal):
   q set to the posterior, every objective, sample shapes [S] and [N,K], several seeds: value = log marginal.
"""
from __future__ import annotations

import itertools
import math
import os
import random
import shutil

from . import tlc
from .common import Ctx, Machinery, use_src

LEVEL = "model_checking"
ALPHAS = [(0, 1), (1, 2), (2, 1), (-1, 1), (3, 4)]
ORDERS = [1, 2, 3]
REPAIRED = "TRUE"       # the tree carries the two "fix:" commits (VR / KLpq average their rows)
ALWAYS_FRESH = "TRUE"   # ... and the one that stops objectives from answering out of the CallableModel cache


# ------------------------------------------------------------------ TLC runs
def run_objective(maxn, maxk, emit):
    d = tlc.workdir("c14")
    al = "{" + ", ".join(f"<<{a},{b}>>" for a, b in ALPHAS) + "}"
    t, c = tlc.write_mc(d, "MC_VarObjective", "VarObjective",
                        {"Objectives": '{"elbo", "elbo-entropy", "vr", "cubo", "klpq"}', "MaxN": str(maxn), "MaxK": str(maxk),
                         "Alphas": al, "Orders": "{" + ",".join(map(str, ORDERS)) + "}", "Repaired": REPAIRED,
                         "Emit": "TRUE" if emit else "FALSE"},
                        ["SPECIFICATION Spec"] + ([] if emit else ["INVARIANT TightInv", "INVARIANT AgreeInv"]))
    res = tlc.run(t, c, workers=1 if emit else 8, cont=True, tag="c14", timeout=1500)
    shutil.rmtree(d, ignore_errors=True)
    return res


def run_protocol(maxdraws, maxphi):
    d = tlc.workdir("c14")
    shapes = ["default", "s3", "s23"]
    lines, amap = [], {}
    for s in shapes:
        lines.append(f'Req_{s} == Request("{s}")')
        lines.append(f'Smp_{s} == Sample("{s}")')
        amap[f"Req_{s}"] = amap[f'Request("{s}")'] = ("request", s)
        amap[f"Smp_{s}"] = amap[f'Sample("{s}")'] = ("sample", s)
    for a in ("Step", "EvalP", "EvalQ"):
        lines.append(f"A_{a} == {a}")
        amap[f"A_{a}"] = amap[a] = (a.lower(), None)
    lines.append("MCNext == " + " \\/ ".join(k for k in amap if "_" in k))
    lines.append("MCSpec == Init /\\ [][MCNext]_vars")
    t, c = tlc.write_mc(d, "MC_VarProtocol", "VarProtocol",
                        {"Shapes": '{"default", "s3", "s23"}', "MaxDraws": str(maxdraws), "MaxPhi": str(maxphi), "AlwaysFresh": ALWAYS_FRESH},
                        ["SPECIFICATION MCSpec", "INVARIANT Paired", "INVARIANT Fresh", "INVARIANT Shaped", "INVARIANT CachesCurrent"],
                        extra_defs="\n".join(lines))
    res = tlc.run(t, c, workers=8, cont=True, dump=os.path.join(d, "graph"), tag="c14", timeout=900)
    nodes, edges, init = tlc.parse_dot(os.path.join(d, "graph.dot"))
    shutil.rmtree(d, ignore_errors=True)
    return res, nodes, edges, init, amap


# ------------------------------------------------------------------ numeric value of an emitted symbolic form
def rat(c):
    return c[0] / c[1]


def eval_form(f, env):
    """f: frozenset of (basis, (n, d)); env: W[n][k], Q[n][k], H, C, M."""
    tot = 0.0
    for basis, coef in f:
        kind, i, j, s1, s2 = basis
        if kind == "W":
            v = env["W"][i - 1][j - 1]
        elif kind == "Q":
            v = env["Q"][i - 1][j - 1]
        elif kind in ("H", "C", "M"):
            v = env[kind]
        elif kind == "logn":
            v = math.log(i)
        elif kind == "lse":
            terms = [(eval_form(d, env), cnt) for d, cnt in s1]
            m = max(t for t, _ in terms)
            v = m + math.log(sum(cnt * math.exp(t - m) for t, cnt in terms))
        elif kind == "ex":
            v = math.exp(eval_form(s1, env)) * eval_form(s2, env)
        elif kind == "error":
            raise ValueError("spec: shapes cannot be combined")
        else:
            raise Machinery(f"unknown basis {kind}")
        tot += rat(coef) * v
    return tot


def definition(obj, dims, W, Q, H, par):
    """Independent numeric definitions (rows = independent estimates, averaged)."""
    def lse(v):
        m = max(v)
        return m + math.log(sum(math.exp(a - m) for a in v))
    flat = [a for r in W for a in r]
    K = len(W[0])
    if obj == "elbo" or (obj == "elbo-entropy" and dims == 2):
        return sum(lse(r) - math.log(K) for r in W) / len(W) if dims == 2 else sum(flat) / len(flat)
    if obj == "elbo-entropy":
        return sum(w + q for rw, rq in zip(W, Q) for w, q in zip(rw, rq)) / len(flat) + H
    if obj == "vr":
        oma = 1.0 - rat(par)
        return sum((lse([oma * a for a in r]) - math.log(K)) / oma for r in W) / len(W)
    if obj == "cubo":
        return (lse([par * a for a in flat]) - math.log(len(flat))) / par
    if obj == "klpq":
        out = 0.0
        for r in W:
            l = lse(r)
            out += sum(math.exp(a - l) * a for a in r)
        return out / len(W)
    raise Machinery(obj)


# ------------------------------------------------------------------ stubs
def make_stub_objective(obj, dims, N, K, par, W, Q, H):
    import torch
    from torchtree.core.model import CallableModel
    from torchtree.distributions.distributions import DistributionModel
    from torchtree.variational.chi import CUBO
    from torchtree.variational.kl import ELBO, KLpq
    from torchtree.variational.renyi import VR
    shape = [K] if dims == 1 else [N, K]
    tw = torch.tensor(W, dtype=torch.float64).reshape(shape)
    tq = torch.tensor(Q, dtype=torch.float64).reshape(shape)

    class StubQ(DistributionModel):
        def __init__(self):
            CallableModel.__init__(self, "q")
            self.asked = []

        def rsample(self, sample_shape=torch.Size()):
            self.asked.append(tuple(sample_shape))

        sample = rsample

        def log_prob(self, x=None):
            return tq

        def entropy(self):
            return torch.tensor([H], dtype=torch.float64)

        def _call(self, *a, **k):
            return tq

        def _sample_shape(self):
            return torch.Size(shape)

        def handle_parameter_changed(self, *a):
            pass

        @classmethod
        def from_json(cls, data, dic):
            raise NotImplementedError

    class StubP(CallableModel):
        def _call(self, *a, **k):
            return tw + tq

        def _sample_shape(self):
            return torch.Size(shape)

        def handle_parameter_changed(self, *a):
            pass

        @classmethod
        def from_json(cls, data, dic):
            raise NotImplementedError
    q, p = StubQ(), StubP("p")
    ss = torch.Size(shape)
    if obj == "elbo":
        o = ELBO("o", q, p, ss)
    elif obj == "elbo-entropy":
        o = ELBO("o", q, p, ss, entropy=True)
    elif obj == "vr":
        o = VR("o", q, p, ss, rat(par))
    elif obj == "cubo":
        o = CUBO("o", q, p, ss, torch.tensor(float(par)))
    elif obj == "klpq":
        o = KLpq("o", q, p, ss)
    else:
        raise Machinery(obj)
    return o, q


def check_stub_case(ctx: Ctx, case, rnd):
    obj, dims, N, K, par = case["obj"], case["dims"], case["N"], case["K"], case["par"]
    shape = [K] if dims == 1 else [N, K]
    tag = f"{obj}:{'x'.join(map(str, shape))}" + (f":{par}" if obj in ("vr", "cubo") else "")
    ctx.add("evaluations")
    ctx.distinct(("stub", tag), dims == 2 or K > 1)
    for trial in range(2):
        c = rnd.uniform(-3, 1)
        W = [[(c if trial == 0 else rnd.uniform(-3, 1)) for _ in range(K)] for _ in range(N)]
        Q = [[rnd.uniform(-2, 0) for _ in range(K)] for _ in range(N)]
        H = rnd.uniform(0, 2)
        env = {"W": W, "Q": Q, "H": H, "C": c, "M": max(a for r in W for a in r)}
        try:
            want_spec = eval_form(case["impl"], env)
        except ValueError:
            want_spec = None
        want_def = definition(obj, dims, W, Q, H, par)
        try:
            o, q = make_stub_objective(obj, dims, N, K, par, W, Q, H)
            got = o()
            got = float(got) if got.numel() == 1 else None
        except Exception as e:
            got = f"{type(e).__name__}: {str(e)[:80]}"
        rep = {"objective": obj, "shape": shape, "par": list(par) if isinstance(par, tuple) else par, "W": W, "Q": Q, "H": H}
        ok = lambda a, b: isinstance(a, float) and b is not None and abs(a - b) <= 1e-9 * max(1.0, abs(b))
        if trial == 0:
            # the property: log p - log q = c at every draw  =>  the objective returns c (entropy variant: c + mean log q + H)
            target = c + (sum(a for r in Q for a in r) / (N * K) + H if obj == "elbo-entropy" and dims == 1 else 0.0)
            if not ok(got, target):
                ctx.violation(f"C14:tight-stub:{obj}:{dims}d", f"{obj} with sample shape {shape}{' order ' + str(par) if obj in ('vr', 'cubo') else ''}: log p - log q = {c!r} "
                              f"at every draw, the objective returns {got!r} instead of {target!r}", rep)
                return
            if q.asked != [tuple(shape)]:
                ctx.violation(f"C14:draw-stub:{obj}:{dims}d", f"{obj} with sample shape {shape}: one request made the draws {q.asked}", rep)
                return
        else:
            if not ok(got, want_spec):
                ctx.note(f"MODEL-DRIFT bind:reduction {tag}: real objective returns {got!r}, the transcription in VarObjective.tla gives {want_spec!r} "
                         f"(definition {want_def!r})")
                ctx.add("model_drift")
                return
            if want_spec is not None and not ok(want_def, want_spec):
                raise Machinery(f"VarObjective.tla Req/Impl and the Python definition disagree for {tag}: {want_spec} vs {want_def}")
    ctx.add("traces_validated_against_impl")


# ------------------------------------------------------------------ real conjugate models
def P(id_, t):
    return {"id": id_, "type": "Parameter", "tensor": t}


def D(id_, dist, x, params, **kw):
    return {"id": id_, "type": "Distribution", "distribution": "torch.distributions." + dist, "x": x, "parameters": params, **kw}


def J(id_, ds):
    return {"id": id_, "type": "JointDistributionModel", "distributions": ds}


def lbeta(a, b):
    return math.lgamma(a) + math.lgamma(b) - math.lgamma(a + b)


def conjugate_models(rnd):
    """(name, json objects (p is 'p', q is 'q'), log marginal likelihood, latent id, reference(x tensor, phi) -> (log p, log q))."""
    out = []
    # gamma - exponential
    a, b = rnd.uniform(0.5, 4), rnd.uniform(0.5, 3)
    data = [rnd.uniform(0.05, 3) for _ in range(rnd.randint(1, 5))]
    n, sx = len(data), sum(data)
    out.append(("gamma-exponential", [
        D("prior", "Gamma", P("z", [1.0]), {"concentration": P("a", [a]), "rate": P("b", [b])}),
        D("lik", "Exponential", P("data", data), {"rate": "z"}), J("p", ["prior", "lik"]),
        D("q0", "Gamma", "z", {"concentration": P("qa", [a + n]), "rate": P("qb", [b + sx])}), J("q", ["q0"])],
        a * math.log(b) - math.lgamma(a) + math.lgamma(a + n) - (a + n) * math.log(b + sx)))
    # gamma - Poisson
    a, b = rnd.uniform(0.5, 4), rnd.uniform(0.5, 3)
    ys = [float(rnd.randint(0, 6)) for _ in range(rnd.randint(1, 5))]
    n, sy = len(ys), sum(ys)
    out.append(("gamma-poisson", [
        D("prior", "Gamma", P("z", [1.0]), {"concentration": P("a", [a]), "rate": P("b", [b])}),
        D("lik", "Poisson", P("data", ys), {"rate": "z"}), J("p", ["prior", "lik"]),
        D("q0", "Gamma", "z", {"concentration": P("qa", [a + sy]), "rate": P("qb", [b + n])}), J("q", ["q0"])],
        a * math.log(b) - math.lgamma(a) + math.lgamma(a + sy) - (a + sy) * math.log(b + n) - sum(math.lgamma(y + 1) for y in ys)))
    # gamma - Poisson with many observations: |log Z| of the order of a thousand (exp(n log w) must be stabilised)
    a, b = rnd.uniform(0.5, 4), rnd.uniform(0.5, 3)
    ys = [float(rnd.randint(0, 9)) for _ in range(400)]
    n, sy = len(ys), sum(ys)
    out.append(("gamma-poisson-400", [
        D("prior", "Gamma", P("z", [1.0]), {"concentration": P("a", [a]), "rate": P("b", [b])}),
        D("lik", "Poisson", P("data", ys), {"rate": "z"}), J("p", ["prior", "lik"]),
        D("q0", "Gamma", "z", {"concentration": P("qa", [a + sy]), "rate": P("qb", [b + n])}), J("q", ["q0"])],
        a * math.log(b) - math.lgamma(a) + math.lgamma(a + sy) - (a + sy) * math.log(b + n) - sum(math.lgamma(y + 1) for y in ys)))
    # normal - normal, d independent means with one observation each
    d = rnd.randint(1, 4)
    m0 = [rnd.uniform(-2, 2) for _ in range(d)]
    s0 = [rnd.uniform(0.3, 2) for _ in range(d)]
    sg = [rnd.uniform(0.3, 2) for _ in range(d)]
    y = [rnd.uniform(-3, 3) for _ in range(d)]
    prec = [1 / s0[i] ** 2 + 1 / sg[i] ** 2 for i in range(d)]
    mn = [(m0[i] / s0[i] ** 2 + y[i] / sg[i] ** 2) / prec[i] for i in range(d)]
    sn = [prec[i] ** -0.5 for i in range(d)]
    lz = sum(-0.5 * math.log(2 * math.pi * (s0[i] ** 2 + sg[i] ** 2)) - 0.5 * (y[i] - m0[i]) ** 2 / (s0[i] ** 2 + sg[i] ** 2) for i in range(d))
    out.append((f"normal-normal-d{d}", [
        D("prior", "Normal", P("z", [0.1] * d), {"loc": P("m0", m0), "scale": P("s0", s0)}),
        D("lik", "Normal", P("data", y), {"loc": "z", "scale": P("sg", sg)}), J("p", ["prior", "lik"]),
        D("q0", "Normal", "z", {"loc": P("qm", mn), "scale": P("qs", sn)}), J("q", ["q0"])], lz))
    # beta - binomial, plain and with theta a sigmoid-transformed parameter (q.rsample writes through the inverse)
    a, b = rnd.uniform(0.5, 4), rnd.uniform(0.5, 4)
    nt = rnd.randint(1, 9)
    k = rnd.randint(0, nt)
    lz = math.lgamma(nt + 1) - math.lgamma(k + 1) - math.lgamma(nt - k + 1) + lbeta(a + k, b + nt - k) - lbeta(a, b)
    for name, theta in (("beta-binomial", P("z", [0.4])),
                        ("beta-binomial-sigmoid", {"id": "z", "type": "TransformedParameter", "transform": "torch.distributions.SigmoidTransform", "x": P("u", [0.2])})):
        out.append((name, [
            D("prior", "Beta", theta, {"concentration1": P("a", [a]), "concentration0": P("b", [b])}),
            D("lik", "Binomial", P("data", [float(k)]), {"total_count": P("nt", [float(nt)]), "probs": "z"}), J("p", ["prior", "lik"]),
            D("q0", "Beta", "z", {"concentration1": P("qa", [a + k]), "concentration0": P("qb", [b + nt - k])}), J("q", ["q0"])], lz))
    # log-normal prior on z = exp(u) with its Jacobian (so u ~ N(m0, s0)), observation y ~ N(u, sg): q is normal on u
    m0, s0, sg, y = rnd.uniform(-1, 1), rnd.uniform(0.3, 2), rnd.uniform(0.3, 2), rnd.uniform(-2, 2)
    prec = 1 / s0 ** 2 + 1 / sg ** 2
    mn, sn = (m0 / s0 ** 2 + y / sg ** 2) / prec, prec ** -0.5
    lz = -0.5 * math.log(2 * math.pi * (s0 ** 2 + sg ** 2)) - 0.5 * (y - m0) ** 2 / (s0 ** 2 + sg ** 2)
    out.append(("lognormal-exp-jacobian", [
        {"id": "zc", "type": "TransformedParameter", "transform": "torch.distributions.ExpTransform", "x": P("z", [0.3])},
        D("prior", "LogNormal", "zc", {"loc": P("m0", [m0]), "scale": P("s0", [s0])}),
        D("lik", "Normal", P("data", [y]), {"loc": "z", "scale": P("sg", [sg])}), J("p", ["prior", "zc", "lik"]),
        D("q0", "Normal", "z", {"loc": P("qm", [mn]), "scale": P("qs", [sn])}), J("q", ["q0"])], lz))
    # multivariate normal prior and likelihood (one observation)
    import numpy as np
    dd = 2
    A = np.array([[rnd.uniform(0.5, 1.5), 0.0], [rnd.uniform(-0.5, 0.5), rnd.uniform(0.5, 1.5)]])
    S0 = A @ A.T
    Bm = np.array([[rnd.uniform(0.5, 1.5), 0.0], [rnd.uniform(-0.5, 0.5), rnd.uniform(0.5, 1.5)]])
    Sg = Bm @ Bm.T
    m0v = np.array([rnd.uniform(-1, 1) for _ in range(dd)])
    yv = np.array([rnd.uniform(-2, 2) for _ in range(dd)])
    Sn = np.linalg.inv(np.linalg.inv(S0) + np.linalg.inv(Sg))
    Sn = (Sn + Sn.T) / 2
    mnv = Sn @ (np.linalg.inv(S0) @ m0v + np.linalg.inv(Sg) @ yv)
    T = S0 + Sg
    lz = float(-0.5 * (dd * math.log(2 * math.pi) + math.log(np.linalg.det(T)) + (yv - m0v) @ np.linalg.inv(T) @ (yv - m0v)))
    out.append(("mvn-mvn", [
        D("prior", "MultivariateNormal", P("z", [0.1, 0.2]), {"loc": P("m0", m0v.tolist()), "covariance_matrix": P("S0", S0.tolist())}),
        D("lik", "MultivariateNormal", P("data", yv.tolist()), {"loc": "z", "covariance_matrix": P("Sg", Sg.tolist())}), J("p", ["prior", "lik"]),
        D("q0", "MultivariateNormal", "z", {"loc": P("qm", mnv.tolist()), "covariance_matrix": P("qS", Sn.tolist())}), J("q", ["q0"])], lz))
    return out


OBJECTIVES = [("ELBO", {}), ("ELBO", {"entropy": True}), ("VR", {"alpha": 0.0}), ("VR", {"alpha": 0.5}), ("VR", {"alpha": 2.0}), ("VR", {"alpha": -1.0}),
              ("CUBO", {"n": 1.0}), ("CUBO", {"n": 2.0}), ("CUBO", {"n": 3.0}), ("KLpq", {})]


def build(objs):
    from torchtree.core.utils import process_object
    dic = {}
    for o in objs:
        process_object(o, dic)
    return dic


def check_conjugate(ctx: Ctx, name, objs, logz, shapes, seeds):
    import torch
    for (typ, extra), shape in itertools.product(OBJECTIVES, shapes):
        tag = typ + "".join(f":{k}={v}" for k, v in extra.items())
        two_d = len(shape) == 2
        ctx.add("evaluations")
        ctx.distinct((name, tag, tuple(shape)), two_d or shape[0] > 1)
        for seed in seeds:
            torch.manual_seed(seed)
            rep = {"model": name, "objective": typ, "options": extra, "samples": shape, "seed": seed, "log_marginal": logz}
            key = f"C14:tight:{name}:{tag}:{len(shape)}d"
            try:
                dic = build(objs + [{"id": "o", "type": typ, "samples": shape, "joint": "p", "variational": "q", **extra}])
                with torch.no_grad():
                    v = dic["o"]()
                    target = logz
                    if extra.get("entropy") and not two_d:
                        target = logz + float(dic["q"]().mean()) + float(dic["q"].entropy())
            except Exception as e:
                ctx.violation(key + ":raises", f"{name}: {tag} with samples {shape} raises {type(e).__name__}: {str(e)[:100]}", rep)
                break
            if v.numel() != 1 or not math.isfinite(float(v)) or abs(float(v) - target) > 1e-8 * max(1.0, abs(target)):
                ctx.violation(key, f"{name}: q is the exact posterior, {tag} with samples {shape} (seed {seed}) returns {v.tolist()!r}; "
                              f"the log marginal likelihood is {target!r}", rep)
                break
            zs = list(dic["z"].tensor.shape)
            if zs[: len(shape)] != list(shape):
                ctx.violation(f"C14:shape:{name}:{tag}:{len(shape)}d", f"{name}: {tag} asked for samples {shape}, the draw has shape {zs}", rep)
                break
        else:
            ctx.add("traces_validated_against_impl")


# ------------------------------------------------------------------ protocol replay
def walks(nodes, edges, init, amap, max_walks, max_len, seed):
    out_e = {}
    for a, b, lab in edges:
        out_e.setdefault(a, []).append((b, lab))
    rnd = random.Random(seed)
    unvisited = set(edges)
    res = []
    while unvisited and len(res) < max_walks:
        cur, script = init[0], []
        for _ in range(max_len):
            outs = out_e.get(cur, [])
            if not outs:
                break
            fresh = [e for e in outs if (cur, e[0], e[1]) in unvisited]
            nxt, lab = rnd.choice(fresh) if fresh else rnd.choice(outs)
            unvisited.discard((cur, nxt, lab))
            if lab not in amap:
                raise Machinery(f"unknown action label {lab}")
            script.append((amap[lab], nodes[nxt]))
            cur = nxt
        res.append(script)
    return res, len(unvisited)


SHAPES = {"default": [2], "s3": [3], "s23": [2, 3]}


def replay_walk(ctx: Ctx, script, typ, extra, wid):
    """gamma-exponential model; phi = (qa, qb)."""
    import torch
    a, b, data = 2.0, 1.5, [0.3, 1.2, 0.7]
    objs = [D("prior", "Gamma", P("z", [1.0]), {"concentration": P("a", [a]), "rate": P("b", [b])}),
            D("lik", "Exponential", P("data", data), {"rate": "z"}), J("p", ["prior", "lik"]),
            D("q0", "Gamma", "z", {"concentration": P("qa", [3.0]), "rate": P("qb", [2.0])}), J("q", ["q0"]),
            {"id": "o", "type": typ, "samples": SHAPES["default"], "joint": "p", "variational": "q", **extra}]
    dic = build(objs)
    o, p, q, z, qa, qb = (dic[k] for k in ("o", "p", "q", "z", "qa", "qb"))
    torch.manual_seed(wid)
    tag = typ + "".join(f":{k}={v}" for k, v in extra.items())
    done = []

    def reference(shape):
        zt = z.tensor.detach()
        lam = zt.squeeze(-1)
        lp = torch.distributions.Gamma(a, b).log_prob(lam) + torch.distributions.Exponential(lam.unsqueeze(-1)).log_prob(torch.tensor(data)).sum(-1)
        lq = torch.distributions.Gamma(qa.tensor.detach(), qb.tensor.detach()).log_prob(zt).squeeze(-1)
        W = (lp - lq).reshape(-1, lam.shape[-1]).tolist() if lam.dim() >= 1 else [[float(lp - lq)]]
        Q = lq.reshape(-1, lam.shape[-1]).tolist() if lam.dim() >= 1 else [[float(lq)]]
        H = float(torch.distributions.Gamma(qa.tensor.detach(), qb.tensor.detach()).entropy().sum())
        obj = {"ELBO": "elbo-entropy" if extra.get("entropy") else "elbo", "VR": "vr", "CUBO": "cubo", "KLpq": "klpq"}[typ]
        par = {"vr": (int(extra.get("alpha", 0) * 4), 4), "cubo": int(extra.get("n", 2))}.get(obj, 0)
        return definition(obj, lam.dim() if lam.dim() in (1, 2) else 1, W, Q, H, par)
    for (act, arg), node in script:
        done.append(f"{act}({arg})" if arg else act)
        rep = {"objective": typ, "options": extra, "actions": list(done)}
        with torch.no_grad():
            if act == "request":
                before = z.tensor.detach().clone()
                try:
                    v = o() if arg == "default" else o(samples=torch.Size(SHAPES[arg]))
                except Exception as e:
                    ctx.violation(f"C14:raises:{tag}", f"{tag}: after [{' ; '.join(done)}] the request raises {type(e).__name__}: {str(e)[:90]}", rep)
                    return False
                after = z.tensor.detach()
                ctx.add("requests_replayed")
                hist = " ; ".join(done)
                if list(after.shape[:-1]) != SHAPES[arg]:
                    ctx.violation(f"C14:shaped:{tag}", f"{tag}: after [{hist}] the request for samples {SHAPES[arg]} was answered from draws of shape "
                                  f"{list(after.shape[:-1])}", rep)
                    return False
                if after.shape == before.shape and bool((after == before).all()):
                    ctx.violation(f"C14:fresh:{tag}", f"{tag}: after [{hist}] the request made no new draw", rep)
                    return False
                want = reference(SHAPES[arg])
                if abs(float(v) - want) > 1e-9 * max(1.0, abs(want)):
                    ctx.violation(f"C14:paired:{tag}", f"{tag}: after [{hist}] the request returned {float(v)!r}; log p and log q at the draw now stored in x, "
                                  f"under the current variational parameters, give {want!r}", rep)
                    return False
            elif act == "step":
                qa.tensor.add_(0.37)
                qb.tensor.mul_(1.21)
                for par in (qa, qb):
                    par.fire_parameter_changed()
            elif act == "sample":
                q.sample(torch.Size(SHAPES[arg]))
            elif act == "evalp":
                p()
            elif act == "evalq":
                q()
        flags = (not p.lp_needs_update, not q.lp_needs_update, not o.lp_needs_update)
        spec = (node["pc"]["valid"], node["qc"]["valid"], node["oc"]["valid"])
        if extra.get("entropy"):      # the analytic-entropy variant never evaluates q(): its cache flag is not modelled
            flags, spec = (flags[0], flags[2]), (spec[0], spec[2])
        if flags != spec:
            ctx.note(f"MODEL-DRIFT bind:cache-flags {tag} after [{' ; '.join(done)}]: real (p, q, objective) clean = {flags}, VarProtocol.tla says {spec}")
            ctx.add("model_drift")
            return True
    return True


def run(ctx: Ctx):
    use_src()
    import logging
    logging.disable(logging.CRITICAL)
    rnd = random.Random(ctx.seed + 14)
    quick = ctx.tier == "quick"
    maxn, maxk = (3, 3) if quick else (4, 4)
    res = run_objective(maxn, maxk, False)
    ctx.tlc(res, f"VarObjective shapes up to [{maxn},{maxk}]")
    for v in res.violations:
        ctx.cov.setdefault("design_level", []).append(f"{v.name}: {v.trace[-1][1]}"[:200])
    design = bool(res.violations)
    cases = run_objective(maxn, maxk, True).emitted("CASE")
    if not cases:
        raise Machinery("no cases emitted")
    for case in cases:
        check_stub_case(ctx, case, rnd)
    ctx.sample({"case": {k: str(v)[:200] for k, v in cases[len(cases) // 2].items()}}, limit=2)
    if design and not ctx.violations:
        raise Machinery(f"VarObjective.tla (transcription of the current code) violates {res.violations[0].name} but the real classes do not: "
                        "spec and code must be re-aligned")

    pres, nodes, edges, init, amap = run_protocol(3 if quick else 4, 2)
    ctx.tlc(pres, "VarProtocol")
    nviol = len(ctx.violations)
    ws, left = walks(nodes, edges, init, amap, 60 if quick else 600, 12, ctx.seed)
    ctx.cov["protocol_edges"] = len(edges)
    ctx.cov["protocol_edges_not_walked"] = left
    kinds = [("ELBO", {}), ("ELBO", {"entropy": True}), ("VR", {"alpha": 0.5}), ("CUBO", {"n": 2.0}), ("KLpq", {})]
    for wid, script in enumerate(ws):
        typ, extra = kinds[wid % len(kinds)]
        ctx.add("evaluations")
        ctx.distinct(("walk", wid), len(script) > 3)
        if replay_walk(ctx, script, typ, extra, wid):
            ctx.add("traces_validated_against_impl")

    if pres.violations and len(ctx.violations) == nviol:
        raise Machinery(f"VarProtocol.tla (transcription of the current code) violates {pres.violations[0].name} but the real objects do not")
    shapes = [[1], [3], [2, 3], [3, 3]] if quick else [[1], [2], [5], [1, 1], [2, 3], [3, 3], [4, 2], [1, 4], [5, 1]]
    for rep in range(1 if quick else 4):
        for name, objs, logz in conjugate_models(rnd):
            check_conjugate(ctx, name, objs, logz, shapes, [1, 2] if quick else [1, 2, 3, 4])
    ctx.cov["rule"] = ("reduction layer: every (objective, sample shape, order) emitted by TLC run on the real class with stubs; protocol layer: transition-covering "
                       "walks of the TLC state graph; conjugate layer: (model, objective, shape) x seeds; non-trivial = more than one draw")
    ctx.assumptions += ["the analytic-entropy ELBO cannot equal log Z draw by draw (it replaces -mean log q by H); it is held to the exact identity "
                        "value = log Z + mean log q(z_s) + H(q)",
                        "score-function ELBO, KLpqImportance and SELBO return gradient surrogates / mixtures and are not in the property's list",
                        "variational distributions are wrapped in a JointDistributionModel, as every shipped example and the CLI do"]
