"""C16 - the leapfrog integrator is reversible and volume preserving.

1. TLC: Leapfrog.tla - exact rationals on quadratic potentials (dimension 1-2, diagonal and dense
   SPD A, diagonal and dense dyadic inverse mass, step sizes 1/2^k, 1..4 steps): integrating,
   negating the momentum and integrating again returns to the start exactly; the determinant of
   the 2d x 2d map is 1; every case is emitted with the exact end point, Hastings term K0 - K1 and
   energy error.
2. spec -> code: the same cases through the real LeapfrogIntegrator on Gaussian joints built from
   shipped Normal / MultivariateNormal distributions: end positions written into the parameters
   and the returned momentum vs the rationals (1e-12); then - on the same Parameter objects -
   momentum negated and integrated again (the gradient state left behind by the first call must
   not leak); HMCOperator.step() on the same targets: return value = K0 - K1 of the recorded
   momenta (also when a trial fails numerically and is retried), positions restored after a
   failed trial.
3. Non-quadratic targets (gamma through a log transform, mixed Normal/Gamma joints, dimension up
   to 8, step sizes 1e-3..0.5, up to 30 steps, random SPD mass): reversibility, Jacobian
   determinant of the flow by autodiff, log-log slope of the energy error.
"""
from __future__ import annotations

import itertools
import json
import math
import random
import shutil
from fractions import Fraction

from . import tlc
from .common import Ctx, Machinery, use_src

LEVEL = "model_checking"


def rat(x):
    f = Fraction(x)
    return f"<<{f.numerator}, {f.denominator}>>"


def lattice(tier):
    cases = []
    A1 = [[[Fraction(1)]], [[Fraction(4)]], [[Fraction(1, 4)]]]
    W1 = [[[Fraction(1)]], [[Fraction(2)]]]
    A2 = [[[Fraction(1), Fraction(0)], [Fraction(0), Fraction(4)]], [[Fraction(2), Fraction(1)], [Fraction(1), Fraction(2)]]]
    W2 = [[[Fraction(1), Fraction(0)], [Fraction(0), Fraction(1)]], [[Fraction(1, 2), Fraction(0)], [Fraction(0), Fraction(2)]],
          [[Fraction(1), Fraction(1, 2)], [Fraction(1, 2), Fraction(1)]]]
    for A in A1:
        for W in W1:
            for eps in (Fraction(1, 2), Fraction(1, 4)):
                for L in (1, 2, 3):
                    cases.append(dict(d=1, A=A, W=W, eps=eps, L=L, q=[Fraction(1)], p=[Fraction(-1, 2)]))
    for A in A2:
        for W in W2:
            for eps in (Fraction(1, 2),):
                for L in (1, 2):
                    cases.append(dict(d=2, A=A, W=W, eps=eps, L=L, q=[Fraction(1), Fraction(-2)], p=[Fraction(1, 2), Fraction(1)]))
    return cases


def case_tla(c):
    vec = lambda v: "<<" + ", ".join(rat(x) for x in v) + ">>"
    mat = lambda m: "<<" + ", ".join(vec(r) for r in m) + ">>"
    return f'[det |-> {"TRUE" if c["L"] <= (2 if c["d"] == 1 else 1) else "FALSE"}, d |-> {c["d"]}, A |-> {mat(c["A"])}, W |-> {mat(c["W"])}, eps |-> {rat(c["eps"])}, L |-> {c["L"]}, q |-> {vec(c["q"])}, p |-> {vec(c["p"])}]'


def fr(p):
    return Fraction(p[0], p[1])


def P(id_, t):
    return {"id": id_, "type": "Parameter", "tensor": t}


def gaussian_joint(A):
    """Joint with log density -q'Aq/2 + const from shipped distributions; returns (dic, parameters)."""
    from torchtree.core.utils import process_object
    d = len(A)
    dic = {}
    diag = all(A[i][j] == 0 for i in range(d) for j in range(d) if i != j)
    if diag:
        dists = []
        for i in range(d):
            sd = math.sqrt(1.0 / float(A[i][i]))
            js = {"id": f"n{i}", "type": "Distribution", "distribution": "torch.distributions.Normal", "x": P(f"q{i}", [0.0]),
                  "parameters": {"loc": P(f"n{i}.loc", [0.0]), "scale": P(f"n{i}.scale", [sd])}}
            process_object(js, dic)
            dists.append(f"n{i}")
        joint = process_object({"id": "joint", "type": "JointDistributionModel", "distributions": dists}, dic)
        params = [dic[f"q{i}"] for i in range(d)]
    else:
        js = {"id": "mvn", "type": "MultivariateNormal", "x": P("q", [0.0] * d),
              "parameters": {"loc": P("mvn.loc", [0.0] * d), "precision_matrix": P("mvn.prec", [[float(v) for v in r] for r in A])}}
        process_object(js, dic)
        joint = process_object({"id": "joint", "type": "JointDistributionModel", "distributions": ["mvn"]}, dic)
        params = [dic["q"]]
    return dic, joint, params


def diagW_A(dic):
    return "mvn" not in dic


def set_q(params, q):
    import torch
    k = 0
    for p in params:
        n = p.tensor.shape[-1]
        p.tensor = torch.tensor(q[k:k + n])
        k += n


def get_q(params):
    return [float(v) for p in params for v in p.tensor.detach().reshape(-1).tolist()]


def check_case(ctx: Ctx, em):
    import torch
    from torchtree.inference.hmc.integrator import LeapfrogIntegrator
    c = em["case"]
    d = c["d"]
    A = [[fr(v) for v in r] for r in c["A"]]
    W = [[fr(v) for v in r] for r in c["W"]]
    eps, L = float(fr(c["eps"])), c["L"]
    q0, p0 = [float(fr(v)) for v in c["q"]], [float(fr(v)) for v in c["p"]]
    q1, p1 = [float(fr(v)) for v in em["q1"]], [float(fr(v)) for v in em["p1"]]
    key = json.dumps(c)
    ctx.add("evaluations")
    ctx.distinct(key, d > 1 or L > 1)
    dic, joint, params = gaussian_joint(A)
    set_q(params, q0)
    diagW = all(W[i][j] == 0 for i in range(d) for j in range(d) if i != j)
    Wt = torch.tensor([float(W[i][i]) for i in range(d)]) if diagW else torch.tensor([[float(v) for v in r] for r in W])
    integ = LeapfrogIntegrator("lf", L, eps)
    try:
        pm = integ(joint, params, torch.tensor(p0), Wt)
    except Exception as e:
        ctx.violation("C16:integrator:raises", f"{type(e).__name__}: {e}; case {key}", {"case": c})
        return
    gq, gp = get_q(params), [float(v) for v in pm.tolist()]
    tag = f"d={d} A={[[str(v) for v in r] for r in A]} W={[[str(v) for v in r] for r in W]} eps={eps} L={L}"
    if any(abs(a - b) > 1e-12 * max(1, abs(b)) for a, b in zip(gq + gp, q1 + p1)):
        ctx.violation(f"C16:integrator:end-point:{'dense' if not diagW else 'diag'}-mass", f"{tag}: (q', p') = {gq}, {gp}; the exact leapfrog map gives {q1}, {p1}", {"case": c})
        return
    # an integrator whose step size was re-assigned after construction (what every step-size adaptor does) is the same map
    dic2, joint2, params2 = gaussian_joint(A)
    set_q(params2, q0)
    integ2 = LeapfrogIntegrator("lf2", L, 2.0 * eps)
    integ2.step_size = eps
    try:
        pm2 = integ2(joint2, params2, torch.tensor(p0), Wt)
        gq2, gp2 = get_q(params2), [float(v) for v in pm2.tolist()]
        if any(abs(a - b) > 1e-12 * max(1, abs(b)) for a, b in zip(gq2 + gp2, q1 + p1)):
            ctx.violation("C16:integrator:end-point:after-step-size-change", f"{tag}: an integrator built with step size {2 * eps} and then set to {eps} gives "
                          f"({gq2}, {gp2}); the exact leapfrog map gives ({q1}, {p1})", {"case": c})
            return
    except Exception as e:
        ctx.violation("C16:integrator:raises", f"{type(e).__name__}: {e}; case {key} (step size re-assigned)", {"case": c})
        return
    # reversibility on the same Parameter objects: negate the momentum, integrate again
    try:
        pb = integ(joint, params, -pm.detach(), Wt)
    except Exception as e:
        ctx.violation("C16:integrator:second-call-raises", f"{type(e).__name__}: {e}", {"case": c})
        return
    bq, bp = get_q(params), [float(v) for v in pb.tolist()]
    if any(abs(a - b) > 1e-11 * max(1, abs(b)) for a, b in zip(bq + bp, q0 + [-v for v in p0])):
        ctx.violation("C16:integrator:reversibility", f"{tag}: integrating, negating the momentum and integrating again gives ({bq}, {bp}), expected ({q0}, {[-v for v in p0]})",
                      {"case": c})
        return
    # history independence (Leapfrog.tla: HistoryFree): the parameters sit where the integrator left them (~ q0); another operator
    # moves the target's location to m = q0 - q1, so that in the target's frame the position is q1; the same integrator object,
    # called again on the same objects with momentum -p1, must give the reversed first trajectory translated by m
    m = [a - b for a, b in zip(q0, q1)]
    if diagW_A(dic):
        for i in range(d):
            dic[f"n{i}.loc"].tensor = torch.tensor([m[i]])
    else:
        dic["mvn.loc"].tensor = torch.tensor(m)
    try:
        ph = integ(joint, params, torch.tensor([-v for v in p1]), Wt)
    except Exception as e:
        ctx.violation("C16:integrator:second-call-raises", f"{type(e).__name__}: {e} (after the target moved)", {"case": c})
        return
    hq, hp = get_q(params), [float(v) for v in ph.tolist()]
    want = [a + b for a, b in zip(q0, m)] + [-v for v in p0]
    ctx.add("history_free_replays")
    if any(abs(a - b) > 1e-10 * max(1, abs(b)) for a, b in zip(hq + hp, want)):
        ctx.violation("C16:integrator:history-dependent", f"{tag}: a trajectory started where the previous one ended, after the target's location moved to {m}, "
                      f"ends at ({hq}, {hp}); the exact leapfrog map under the moved target gives ({want[:d]}, {want[d:]})", {"case": c})
        return
    ctx.add("traces_validated_against_impl")


# ------------------------------------------------------------------ HMCOperator.step and non-quadratic targets
def targets():
    """(name, json elements, parameter ids, joint id)"""
    out = []
    out.append(("gaussian3", [
        {"id": "dx", "type": "Distribution", "distribution": "torch.distributions.Normal", "x": P("x", [0.3, -0.2, 0.8]),
         "parameters": {"loc": P("dx.loc", [0.5]), "scale": P("dx.scale", [1.5])}},
        {"id": "joint", "type": "JointDistributionModel", "distributions": ["dx"]}], ["x"], "joint"))
    out.append(("gamma-log", [
        {"id": "dy", "type": "Distribution", "distribution": "torch.distributions.Gamma",
         "x": {"id": "y", "type": "TransformedParameter", "transform": "torch.distributions.ExpTransform", "x": P("y.unres", [0.1, -0.3])},
         "parameters": {"concentration": P("dy.shape", [2.0]), "rate": P("dy.rate", [1.5])}},
        {"id": "joint", "type": "JointDistributionModel", "distributions": ["dy", "y"]}], ["y.unres"], "joint"))
    out.append(("mixed8", [
        {"id": "dx", "type": "Distribution", "distribution": "torch.distributions.Normal", "x": P("x", [0.3, -0.2, 0.8, 0.1, -0.7]),
         "parameters": {"loc": P("dx.loc", [0.0]), "scale": P("dx.scale", [0.7])}},
        {"id": "dy", "type": "Distribution", "distribution": "torch.distributions.Gamma",
         "x": {"id": "y", "type": "TransformedParameter", "transform": "torch.distributions.ExpTransform", "x": P("y.unres", [0.1, -0.3, 0.4])},
         "parameters": {"concentration": P("dy.shape", [3.0]), "rate": P("dy.rate", [2.0])}},
        {"id": "joint", "type": "JointDistributionModel", "distributions": ["dx", "dy", "y"]}], ["x", "y.unres"], "joint"))
    # untransformed gamma: the flow leaves the support for large steps -> failed trials and retries
    out.append(("gamma-raw", [
        {"id": "dz", "type": "Distribution", "distribution": "torch.distributions.Gamma", "x": P("z", [0.4, 0.9]),
         "parameters": {"concentration": P("dz.shape", [2.0]), "rate": P("dz.rate", [1.0])}},
        {"id": "joint", "type": "JointDistributionModel", "distributions": ["dz"]}], ["z"], "joint"))
    return out


def build_target(t):
    from torchtree.core.utils import process_object
    dic = {}
    for e in t[1]:
        process_object(e, dic)
    return dic, dic[t[3]], [dic[i] for i in t[2]]


def random_spd(rnd, d):
    import torch
    B = torch.tensor([[rnd.uniform(-1, 1) for _ in range(d)] for _ in range(d)])
    return B @ B.T + torch.eye(d) * 0.5


def check_flow_properties(ctx: Ctx, rnd, tier):
    import torch
    from torchtree.inference.hmc.integrator import LeapfrogIntegrator
    for t in targets()[:3]:
        for rep in range(3 if tier == "quick" else 15):
            dic, joint, params = build_target(t)
            d = sum(p.tensor.shape[-1] for p in params)
            q0 = get_q(params)
            dense = rep % 2 == 1
            M = random_spd(rnd, d) if dense else torch.tensor([rnd.uniform(0.3, 3) for _ in range(d)])
            Winv = torch.inverse(M) if dense else 1.0 / M
            eps = 10 ** rnd.uniform(-3, math.log10(0.2))
            L = rnd.randint(1, 30 if tier == "thorough" else 12)
            p0 = torch.tensor([rnd.gauss(0, 1) for _ in range(d)])
            integ = LeapfrogIntegrator("lf", L, eps)
            ctx.add("evaluations")
            ctx.distinct(("flow", t[0], rep))
            set_q(params, q0)
            p1 = integ(joint, params, p0, Winv)
            pb = integ(joint, params, -p1.detach(), Winv)
            bq = get_q(params)
            err = max([abs(a - b) for a, b in zip(bq, q0)] + [float((pb + p0).abs().max())])
            if err > 1e-8:
                ctx.violation(f"C16:reversibility:{t[0]}", f"target {t[0]} d={d} eps={eps:.4g} L={L} {'dense' if dense else 'diag'} mass: round trip error {err:.3g}",
                              {"target": t[0], "eps": eps, "L": L})
            # volume: Jacobian determinant of (q,p) -> (q',p') by autodiff of a re-implementation-free wrapper
            def flow(z):
                dic2, joint2, params2 = build_target(t)
                k = 0
                for p in params2:
                    n = p.tensor.shape[-1]
                    p.tensor = z[k:k + n].detach().clone()
                    k += n
                pm = LeapfrogIntegrator("lf", L, eps)(joint2, params2, z[d:].detach().clone(), Winv)
                return torch.cat([torch.tensor(get_q(params2)), pm.detach()])
            z0 = torch.cat([torch.tensor(q0), p0])
            h = 1e-6
            J = torch.stack([(flow(z0 + h * torch.eye(2 * d)[i]) - flow(z0 - h * torch.eye(2 * d)[i])) / (2 * h) for i in range(2 * d)], 1)
            det = float(torch.linalg.det(J))
            if abs(det - 1.0) > 1e-5:
                ctx.violation(f"C16:volume:{t[0]}", f"target {t[0]} d={d} eps={eps:.4g} L={L}: Jacobian determinant of the flow is {det!r}", {"target": t[0]})
        # energy error shrinks quadratically with the step size (fixed integration time)
        dic, joint, params = build_target(t)
        d = sum(p.tensor.shape[-1] for p in params)
        q0 = get_q(params)
        Winv = torch.ones(d)
        p0 = torch.tensor([0.7 * (-1) ** i for i in range(d)])
        errs = []
        for eps, L in ((0.1, 4), (0.05, 8), (0.025, 16)):
            set_q(params, q0)
            with torch.no_grad():
                H0 = -float(joint()) + 0.5 * float((p0 * p0).sum())
            p1 = LeapfrogIntegrator("lf", L, eps)(joint, params, p0, Winv)
            with torch.no_grad():
                H1 = -float(joint()) + 0.5 * float((p1 * p1).sum())
            errs.append(abs(H1 - H0))
        ctx.add("evaluations")
        if errs[0] > 1e-12 and errs[2] > 1e-13:
            slope = math.log(errs[0] / errs[2]) / math.log(4.0)
            if slope < 1.7:
                ctx.violation(f"C16:energy-order:{t[0]}", f"target {t[0]}: energy errors {errs} for step sizes 0.1, 0.05, 0.025 (slope {slope:.2f}, expected ~2)", {"target": t[0]})


def check_operator(ctx: Ctx, rnd, tier):
    """HMCOperator.step(): return value = K0 - K1 of the momenta actually used; failed trials restore positions."""
    import torch
    from torchtree.core.parameter import Parameter
    from torchtree.inference.hmc.integrator import LeapfrogIntegrator
    from torchtree.inference.hmc.operator import HMCOperator
    for t, eps, L in ((targets()[0], 0.2, 5), (targets()[2], 0.1, 6), (targets()[3], 0.9, 6), (targets()[3], 1.5, 4)):
        for dense in (False, True):
            dic, joint, params = build_target(t)
            d = sum(p.tensor.shape[-1] for p in params)
            M = random_spd(rnd, d) if dense else torch.tensor([rnd.uniform(0.5, 2) for _ in range(d)])
            op = HMCOperator("op", joint, params, LeapfrogIntegrator("lf", L, eps), Parameter("mass", M))
            draws, runs = [], []
            osm = op._hamiltonian.sample_momentum
            op._hamiltonian.sample_momentum = lambda mm: draws.append(osm(mm)) or draws[-1]
            real_integ = op._integrator

            class Px:
                step_size = eps

                def __call__(self, model, parameters, momentum, inv):
                    runs.append({"q_in": get_q(parameters), "p0": momentum.detach().clone()})
                    out = real_integ(model, parameters, momentum, inv)
                    runs[-1]["p1"] = out.detach().clone()
                    return out
            object.__setattr__(op, "_integrator", Px())
            torch.manual_seed(rnd.randint(0, 10 ** 6))
            nfail = 0
            for it in range(40 if tier == "quick" else 200):
                draws.clear()
                runs.clear()
                qb = get_q(params)
                try:
                    import contextlib, io
                    with contextlib.redirect_stdout(io.StringIO()):
                        ret = float(op.step())
                except Exception as e:
                    ctx.violation(f"C16:operator:raises:{t[0]}", f"HMCOperator.step raised {type(e).__name__}: {e}", {"target": t[0]})
                    break
                ctx.add("evaluations")
                retried = len(draws) > 1
                nfail += retried
                ctx.distinct(("op", t[0], dense, it), retried)
                done = [r for r in runs if "p1" in r]
                if math.isinf(ret) or not done:
                    op.reject()
                    continue
                # every trial must have started from the saved position
                if any(max(abs(a - b) for a, b in zip(r["q_in"], qb)) > 0 for r in runs):
                    ctx.violation(f"C16:operator:retry-not-restored:{t[0]}", f"target {t[0]}: a retried trial did not start from the position before the proposal "
                                  f"({[r['q_in'] for r in runs]} vs {qb})", {"target": t[0]})
                    break
                Minv = torch.inverse(M) if dense else torch.diag(1.0 / M)
                K = lambda p: 0.5 * float(p @ Minv @ p)
                want = K(done[-1]["p0"]) - K(done[-1]["p1"])
                if abs(ret - want) > 1e-9 * max(1.0, abs(want)):
                    ctx.violation(f"C16:operator:hastings{':after-retry' if retried else ''}:{'dense' if dense else 'diag'}",
                                  f"target {t[0]}: step() returned {ret!r}; K0 - K1 of the momentum drawn for the successful trial is {want!r} "
                                  f"({len(draws)} momentum draws)", {"target": t[0], "eps": eps, "L": L})
                    break
                (op.accept if rnd.random() < 0.6 else op.reject)()
            ctx.add("operator_steps_with_retry", nfail)
            # a restored operator: the state (with this mass matrix) is written as JSON and loaded into an operator built with a unit
            # mass matrix; the Hastings term of its next step must be K0 - K1 under the RESTORED mass matrix
            try:
                from torchtree.core.parameter_encoder import ParameterEncoder
                object.__setattr__(op, "_integrator", real_integ)
                state = json.loads(json.dumps(op.state_dict(), cls=ParameterEncoder))
                dic2, joint2, params2 = build_target(t)
                set_q(params2, get_q(params))
                unit = torch.eye(d) if dense else torch.ones(d)
                op2 = HMCOperator("op", joint2, params2, LeapfrogIntegrator("lf", L, eps), Parameter("mass", unit))
                op2.load_state_dict(state)
                rec2 = {}
                real2 = op2._integrator

                class Px2:
                    step_size = real2.step_size

                    def __call__(self, model, parameters, momentum, inv):
                        rec2["p0"] = momentum.detach().clone()
                        out = real2(model, parameters, momentum, inv)
                        rec2["p1"] = out.detach().clone()
                        return out
                object.__setattr__(op2, "_integrator", Px2())
                import contextlib, io
                with contextlib.redirect_stdout(io.StringIO()):
                    ret2 = float(op2.step())
                if "p1" in rec2 and math.isfinite(ret2):
                    Minv = torch.inverse(M) if dense else torch.diag(1.0 / M)
                    want2 = 0.5 * float(rec2["p0"] @ Minv @ rec2["p0"]) - 0.5 * float(rec2["p1"] @ Minv @ rec2["p1"])
                    ctx.add("restored_operator_steps")
                    if abs(ret2 - want2) > 1e-9 * max(1.0, abs(want2)):
                        ctx.violation(f"C16:operator:hastings:after-restore:{'dense' if dense else 'diag'}",
                                      f"target {t[0]}: an operator restored from a saved state returned {ret2!r}; K0 - K1 under the restored mass matrix is {want2!r}",
                                      {"target": t[0], "eps": eps, "L": L})
            except Exception as e:
                ctx.note(f"restored-operator step not checked for {t[0]}: {type(e).__name__}: {str(e)[:100]}")


def run(ctx: Ctx):
    use_src()
    import logging
    logging.disable(logging.CRITICAL)
    rnd = random.Random(ctx.seed + 16)
    cases = lattice(ctx.tier)
    d = tlc.workdir("c16")
    t, c = tlc.write_mc(d, "MC_Leapfrog", "Leapfrog", {"Cases": "{" + ",\n ".join(case_tla(x) for x in cases) + "}", "Emit": "FALSE"},
                        ["SPECIFICATION Spec", "INVARIANT Reversible", "INVARIANT VolumePreserving", "INVARIANT HistoryFree"])
    res = tlc.run(t, c, workers=16, tag="c16", timeout=1500)
    ctx.tlc(res, f"Leapfrog: {len(cases)} lattice cases")
    if res.violations:
        raise Machinery(f"Leapfrog.tla: {res.violations[0].name} violated on the lattice (spec error)")
    t, c = tlc.write_mc(d, "MC_Leapfrog", "Leapfrog", {"Cases": "{" + ",\n ".join(case_tla(x) for x in cases) + "}", "Emit": "TRUE"}, ["SPECIFICATION Spec"])
    em = tlc.run(t, c, workers=4, tag="c16", timeout=900).emitted("CASE")
    shutil.rmtree(d, ignore_errors=True)
    if len(em) != len(cases):
        raise Machinery(f"emission incomplete: {len(em)} of {len(cases)}")
    for e in em:
        check_case(ctx, e)
    ctx.sample({"case": em[-1]["case"], "q1": em[-1]["q1"], "p1": em[-1]["p1"]}, limit=2)
    check_flow_properties(ctx, rnd, ctx.tier)
    check_operator(ctx, rnd, ctx.tier)
    if not ctx.cov.get("operator_steps_with_retry"):
        ctx.notes.append("no HMC step needed a retry in this run (retry clause not exercised)")
    ctx.cov["rule"] = ("exact lattice cases through the real integrator (forward + reverse on the same objects); random flows on non-quadratic targets; "
                       "HMCOperator steps incl. numerically failing trials; non-trivial = dimension > 1, several steps, or a retried trial")
    ctx.assumptions += ["volume preservation on non-quadratic targets by central finite differences of the real flow (h=1e-6, tolerance 1e-5)"]
