"""Parser for TLA+ values as printed by TLC (states, PrintT output).

tuple/sequence -> tuple, set -> frozenset, record / function -> dict,
strings -> str, ints -> int, booleans -> bool, model values -> ModelValue(str).
"""
from __future__ import annotations


class ModelValue(str):
    pass


class ParseError(Exception):
    pass


class _P:
    def __init__(self, s: str):
        self.s = s
        self.i = 0
        self.n = len(s)

    def ws(self):
        s, n = self.s, self.n
        while self.i < n and s[self.i] in " \t\r\n":
            self.i += 1

    def peek(self, k=1):
        return self.s[self.i:self.i + k]

    def expect(self, tok):
        self.ws()
        if not self.s.startswith(tok, self.i):
            raise ParseError(f"expected {tok!r} at {self.i}: {self.s[self.i:self.i+40]!r}")
        self.i += len(tok)

    def value(self):
        self.ws()
        if self.i >= self.n:
            raise ParseError("unexpected end")
        c = self.s[self.i]
        if c == '"':
            return self.string()
        if c == '<' and self.peek(2) == '<<':
            self.i += 2
            items = self.items('>>')
            return tuple(items)
        if c == '{':
            self.i += 1
            items = self.items('}')
            try:
                return frozenset(items)
            except TypeError:
                return tuple(items)  # unhashable members (dicts): keep order
        if c == '[':
            self.i += 1
            return self.record()
        if c == '(':
            self.i += 1
            return self.function()
        if c == '-' or c.isdigit():
            j = self.i + 1
            while j < self.n and self.s[j].isdigit():
                j += 1
            v = int(self.s[self.i:j])
            self.i = j
            self.ws()
            if self.peek(2) == '..':
                self.i += 2
                hi = self.value()
                return frozenset(range(v, hi + 1))
            return v
        if c.isalpha() or c == '_':
            j = self.i
            while j < self.n and (self.s[j].isalnum() or self.s[j] in '_!'):
                j += 1
            w = self.s[self.i:j]
            self.i = j
            if w == 'TRUE':
                return True
            if w == 'FALSE':
                return False
            return ModelValue(w)
        raise ParseError(f"unexpected {c!r} at {self.i}: {self.s[self.i:self.i+40]!r}")

    def string(self):
        assert self.s[self.i] == '"'
        self.i += 1
        out = []
        s = self.s
        while True:
            c = s[self.i]
            if c == '\\':
                d = s[self.i + 1]
                out.append({'n': '\n', 't': '\t', 'r': '\r', 'f': '\f'}.get(d, d))
                self.i += 2
            elif c == '"':
                self.i += 1
                return ''.join(out)
            else:
                out.append(c)
                self.i += 1

    def items(self, close):
        out = []
        self.ws()
        if self.s.startswith(close, self.i):
            self.i += len(close)
            return out
        while True:
            out.append(self.value())
            self.ws()
            if self.s.startswith(close, self.i):
                self.i += len(close)
                return out
            self.expect(',')

    def record(self):
        out = {}
        self.ws()
        if self.peek() == ']':
            self.i += 1
            return out
        while True:
            self.ws()
            j = self.i
            while j < self.n and (self.s[j].isalnum() or self.s[j] == '_'):
                j += 1
            k = self.s[self.i:j]
            self.i = j
            self.expect('|->')
            out[k] = self.value()
            self.ws()
            if self.peek() == ']':
                self.i += 1
                return out
            self.expect(',')

    def function(self):
        out = {}
        while True:
            k = self.value()
            self.expect(':>')
            v = self.value()
            out[_key(k)] = v
            self.ws()
            if self.peek() == ')':
                self.i += 1
                return out
            self.expect('@@')


def _key(k):
    if isinstance(k, dict):
        return tuple(sorted(k.items()))
    return k


def parse(s: str):
    p = _P(s)
    v = p.value()
    p.ws()
    if p.i != p.n:
        raise ParseError(f"trailing input at {p.i}: {s[p.i:p.i+40]!r}")
    return v


def parse_state(text: str) -> dict:
    """Parse a TLC state: lines '/\\ var = value' (values may span lines)."""
    out = {}
    p = _P(text)
    while True:
        p.ws()
        if p.i >= p.n:
            return out
        if p.peek(2) == '/\\':
            p.i += 2
        p.ws()
        j = p.i
        while j < p.n and (p.s[j].isalnum() or p.s[j] == '_'):
            j += 1
        name = p.s[p.i:j]
        if not name:
            raise ParseError(f"bad state text at {p.i}: {p.s[p.i:p.i+40]!r}")
        p.i = j
        p.expect('=')
        out[name] = p.value()


def to_jsonable(v):
    if isinstance(v, (frozenset, set)):
        return {"$set": sorted((to_jsonable(x) for x in v), key=repr)}
    if isinstance(v, tuple):
        return [to_jsonable(x) for x in v]
    if isinstance(v, list):
        return [to_jsonable(x) for x in v]
    if isinstance(v, dict):
        if all(isinstance(k, str) for k in v):
            return {str(k): to_jsonable(x) for k, x in v.items()}
        return {"$fn": [[to_jsonable(k), to_jsonable(x)] for k, x in v.items()]}
    return v
