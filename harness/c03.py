"""C03 - likelihood accuracy does not degrade with tree size (no silent underflow).

1. TLC: Rescale.tla - the switch-to-rescaling logic over the classes of the smallest per-site
   likelihood (normal / subnormal / zero), single and batched evaluations, all histories:
   Accurate (no value computed from subnormals is reported), FiniteIfTrue, Sticky.  Checked for
   the policy the code follows now; the pinned-commit policy ("inf" only) is a control TLC must flag.
2. Real models: (a) size sweep through and beyond the band where site likelihoods are subnormal,
   for caterpillar / balanced / random shapes, tip partials and tip states, each value compared at
   1e-8 with an extended-range (log-space) pruning that uses the implementation's own transition
   matrices; (b) every history of <= 3 evaluations over the three classes (and batched mixtures)
   on one model object whose branch lengths are moved between evaluations; the recorded events
   (classes, flag after, accuracy) are validated by TraceRescale.tla.
"""
from __future__ import annotations

import itertools
import json
import math
import os
import random
import shutil

from . import tlc
from .common import Ctx, Machinery, use_src

LEVEL = "model_checking"
POLICY = "subnormal"      # what the code follows (see known_findings: switch also on subnormal site likelihoods)
LOG2_TINY = -1022.0
LOG2_MIN = -1074.0


def shape_newick(kind, n, rnd):
    names = [f"t{i}" for i in range(n)]
    if kind == "caterpillar":
        t = names[0]
        for x in names[1:]:
            t = f"({t},{x})"
        return t + ";", names
    if kind == "balanced":
        level = names[:]
        while len(level) > 1:
            nxt = [f"({level[i]},{level[i + 1]})" for i in range(0, len(level) - 1, 2)]
            if len(level) % 2:
                nxt.append(level[-1])
            level = nxt
        return level[0] + ";", names
    items = names[:]
    while len(items) > 1:
        i, j = sorted(rnd.sample(range(len(items)), 2))
        a, b = items[i], items[j]
        items = [x for k, x in enumerate(items) if k not in (i, j)] + [f"({a},{b})"]
    return items[0] + ";", names


def build(kind, n, seqs_fn, rnd, tip_states=False, subst="JC69", site="constant", bl=0.1):
    from torchtree.core.utils import process_object
    nwk, names = shape_newick(kind, n, rnd)
    seqs = seqs_fn(names)
    sub = {"JC69": {"id": "sm", "type": "JC69"},
           "HKY": {"id": "sm", "type": "HKY", "kappa": {"id": "k", "type": "Parameter", "tensor": [3.0]},
                   "frequencies": {"id": "f", "type": "Parameter", "tensor": [0.1, 0.2, 0.3, 0.4]}}}[subst]
    sit = {"constant": {"id": "site", "type": "ConstantSiteModel"},
           "weibull4": {"id": "site", "type": "WeibullSiteModel", "categories": 4, "shape": {"id": "sh", "type": "Parameter", "tensor": [0.5]}}}[site]
    doc = [{"id": "taxa", "type": "Taxa", "taxa": [{"id": nm, "type": "Taxon"} for nm in names]},
           {"id": "dt", "type": "NucleotideDataType"},
           {"id": "alignment", "type": "Alignment", "datatype": "dt", "taxa": "taxa", "sequences": [{"taxon": nm, "sequence": seqs[nm]} for nm in names]},
           {"id": "like", "type": "TreeLikelihoodModel", "use_tip_states": tip_states,
            "tree_model": {"id": "tree", "type": "UnRootedTreeModel", "newick": nwk, "taxa": "taxa",
                           "branch_lengths": {"id": "bl", "type": "Parameter", "tensor": [bl] * (2 * n - 3)}},
            "site_model": sit, "substitution_model": sub,
            "site_pattern": {"id": "patterns", "type": "SitePattern", "alignment": "alignment"}}]
    dic = {}
    for e in doc:
        process_object(e, dic)
    return dic


def reference(dic, bl_row=None):
    """Extended-range pruning in log space with the implementation's own transition matrices.
    Returns (log-likelihood, per-site log2-likelihoods)."""
    import numpy as np
    import torch
    like = dic["like"]
    tm = like.tree_model
    n = len(tm.taxa)
    post = [tuple(int(x) for x in t) for t in tm.postorder]
    bl = tm.branch_lengths().detach() if bl_row is None else bl_row
    bls = torch.cat((bl, torch.zeros(1)))
    rates = like.site_model.rates().reshape(-1)
    probs = like.site_model.probabilities().reshape(-1).numpy()
    P = like.subst_model.p_t(bls.reshape(-1, 1) * rates.reshape(1, -1)).detach().numpy()   # [B, K, S, S]
    pi = like.subst_model.frequencies.detach().numpy()
    w = like.weights.numpy().astype(float)
    nsite = len(w)
    K = P.shape[1]
    if like.use_tip_states:
        tips = []
        for i in range(n):
            st = like.partials[i].numpy()
            m = np.ones((4, nsite))
            for s_, v in enumerate(st):
                if v < 4:
                    m[:, s_] = 0
                    m[v, s_] = 1
            tips.append(m)
    else:
        tips = [like.partials[i].numpy() for i in range(n)]
    with np.errstate(divide="ignore"):
        logp = {i: np.broadcast_to(np.log(tips[i]), (K, 4, nsite)).copy() for i in range(n)}
        logP = np.log(P)

    def side(c):
        # log sum_j P[c,k,i,j] * part[c,k,j,s]
        a = logP[c][:, :, :, None] + logp[c][:, None, :, :]          # [K, i, j, s]
        m = a.max(axis=2, keepdims=True)
        m = np.where(np.isfinite(m), m, 0.0)
        return (m + np.log(np.exp(a - m).sum(axis=2, keepdims=True))).squeeze(2)

    for node, l, r in post:
        logp[node] = side(l) + side(r)
    root = post[-1][0]
    a = np.log(probs)[:, None, None] + np.log(pi)[None, :, None] + logp[root]          # [K, i, s]
    a = a.reshape(-1, nsite)
    m = a.max(axis=0)
    site = m + np.log(np.exp(a - m).sum(axis=0))
    return float((site * w).sum()), (site / math.log(2)).tolist()


def classify(log2s):
    m = min(log2s)
    return "normal" if m >= LOG2_TINY else ("subnormal" if m >= LOG2_MIN else "zero")


def accuracy(got, want):
    if not math.isfinite(got):
        return "-inf"
    return "exact" if abs(got - want) <= 1e-8 * max(1.0, abs(want)) else "lossy"


def run_tlc(ctx, policy, label):
    d = tlc.workdir("c03")
    t, c = tlc.write_mc(d, "MC_Rescale", "Rescale", {"Policy": tlc.tla(policy), "MaxEvals": "4"},
                        ["SPECIFICATION Spec", "INVARIANT Accurate", "INVARIANT FiniteIfTrue", "PROPERTY Sticky"])
    res = tlc.run(t, c, workers=4, cont=True, coverage=True, tag="c03", timeout=300)
    shutil.rmtree(d, ignore_errors=True)
    ctx.tlc(res, label)
    return sorted({v.name for v in res.violations})


def validate_traces(ctx, traces, policy):
    d = tlc.workdir("c03t")
    tf = os.path.join(d, "traces.json")
    with open(tf, "w") as f:
        json.dump(traces, f)
    t, c = tlc.write_mc(d, "MC_TraceRescale", "TraceRescale", {"Policy": tlc.tla(policy), "MaxEvals": "1000"}, ["SPECIFICATION TSpec"])
    res = tlc.run(t, c, workers=1, tag="c03t", timeout=600, env={"TRACE_FILE": tf})
    shutil.rmtree(d, ignore_errors=True)
    ctx.tlc(res, "TraceRescale")
    verdicts = {}
    for p in res.prints:
        if isinstance(p, tuple) and len(p) == 4 and p[0] == "VERDICT":
            verdicts[p[1]] = (p[2], p[3])
    return verdicts


def find_bl(dic, target_log2, lo, hi):
    """Branch length (all branches equal) for which the smallest site log2-likelihood is ~ target."""
    import torch
    n = len(dic["like"].tree_model.taxa)
    for _ in range(60):
        mid = math.sqrt(lo * hi)
        _, l2 = reference(dic, torch.full((2 * n - 3,), mid))
        if min(l2) > target_log2:
            lo = mid
        else:
            hi = mid
    return math.sqrt(lo * hi)


def run(ctx: Ctx):
    use_src()
    import logging
    import torch
    logging.disable(logging.CRITICAL)
    quick = ctx.tier == "quick"
    rnd = random.Random(ctx.seed + 3)
    ctx.assumptions += ["reference: log-space pruning in float64 with the implementation's own transition matrices (only range handling differs)",
                        "float64 only (the float32 band is not swept)"]
    design = run_tlc(ctx, POLICY, f"Rescale Policy={POLICY}")
    ctx.cov["design_level_violations"] = design
    ctl = run_tlc(ctx, "inf", "control: Rescale Policy=inf (pinned commit)")
    if "Accurate" not in ctl:
        raise Machinery("control failed: TLC does not flag the inf-only policy as inaccurate")

    # (a) size sweep
    # repeated columns, so that site patterns carry weights other than one (a scaler must be counted weight times)
    ident = lambda names: {nm: "ACGTAAC" for nm in names}

    def mixed(names):
        r = random.Random(7)
        out = {}
        for nm in names:
            col = "".join(r.choice("ACGT") for _ in range(3))
            out[nm] = col + "A" + col[0] + col[0] + "A"      # columns 1 and 4 are repeated
        return out
    sizes = [8, 64, 300, 372, 380, 384, 388, 392, 396, 404, 480, 512, 520, 528, 536, 560, 600, 800] if quick else \
        [8, 64, 200, 300] + list(range(340, 440, 2)) + list(range(480, 580, 4)) + [600, 700, 800, 1000, 1200]
    for kind in ("caterpillar", "balanced", "random"):
        for n in sizes:
            for tip_states in (False, True):
                if quick and tip_states and n % 16:
                    continue
                for seqfn, tag, bl in ((ident, "identical", 1.0), (mixed, "mixed", 0.1)):
                    if kind == "caterpillar" and n > 600:
                        continue          # recursion depth of the newick parser, not a subject of this property
                    try:
                        dic = build(kind, n, seqfn, rnd, tip_states, bl=bl)
                    except RecursionError:
                        continue
                    try:
                        got = float(dic["like"]())
                    except RecursionError:
                        continue
                    except Exception as e:
                        # the likelihood of a valid tree and alignment is a number at every size: an exception of the real kernel
                        # (e.g. on the evaluation that switches rescaling on) is a loss of the value, not a failure of this machinery
                        ctx.add("evaluations")
                        ctx.violation(f"C03:sweep:raises:{'states' if tip_states else 'partials'}",
                                      f"{kind} tree, {n} tips, {tag} columns, tip {'states' if tip_states else 'partials'}: evaluating the log-likelihood raised "
                                      f"{type(e).__name__}: {str(e)[:120]}", {"kind": kind, "n": n, "tip_states": tip_states, "columns": tag})
                        continue
                    want, l2 = reference(dic)
                    cls = classify(l2)
                    acc = accuracy(got, want)
                    ctx.add("evaluations")
                    ctx.add(f"sweep_class_{cls}")
                    ctx.distinct((kind, n, tip_states, tag), cls != "normal")
                    if acc != "exact":
                        ctx.violation(f"C03:sweep:{cls}:{acc}:{'states' if tip_states else 'partials'}",
                                      f"{kind} tree, {n} tips, {tag} columns, tip {'states' if tip_states else 'partials'}: log-likelihood {got!r} vs "
                                      f"extended-range reference {want!r} (rel {abs(got - want) / max(1, abs(want)):.3g}); smallest site likelihood 2^{min(l2):.1f} "
                                      f"({cls}); rescale flag {dic['like'].rescale}", {"kind": kind, "n": n, "tip_states": tip_states, "columns": tag})
                    # rescaled and unrescaled agree whenever both are representable
                    if cls == "normal" and not dic["like"].rescale:
                        dic["like"].rescale = True
                        dic["like"].lp_needs_update = True
                        got2 = float(dic["like"]())
                        if accuracy(got2, want) != "exact":
                            ctx.violation(f"C03:sweep:rescaled-vs-plain:{'states' if tip_states else 'partials'}",
                                          f"{kind} tree, {n} tips: forced rescaled evaluation {got2!r} differs from the reference {want!r}",
                                          {"kind": kind, "n": n})
    # (b) histories on one model object
    traces, details = [], []
    for tip_states in (False, True):
        n = 600
        dic = build("balanced", n, ident, rnd, tip_states)
        settings = {"normal": 1e-5, "zero": 1.0}
        settings["subnormal"] = find_bl(dic, -1048.0, 1e-5, 1.0)
        for c, b in settings.items():
            _, l2 = reference(dic, torch.full((2 * n - 3,), b))
            if classify(l2) != c:
                raise Machinery(f"could not realise class {c} (got {classify(l2)} at branch length {b})")
        hists = [h for k in (1, 2, 3) for h in itertools.product(["normal", "subnormal", "zero"], repeat=k)]
        batches = [("normal", "subnormal"), ("normal", "zero"), ("subnormal", "zero"), ("normal", "subnormal", "zero")]
        plans = [[(c,) for c in h] for h in hists] + [[b, ("normal",)] for b in batches] + [[("normal",), b, ("subnormal",)] for b in batches] \
            + [[("zero",), b] for b in batches] + [[("subnormal",), b, b] for b in batches]
        if quick:
            plans = plans[:39:2] + plans[39:]
        for plan in plans:
            dic = build("balanced", n, ident, rnd, tip_states)
            like, blp = dic["like"], dic["bl"]
            events, det = [], []
            for step in plan:
                rows = torch.stack([torch.full((2 * n - 3,), settings[c] * (1.0 + 0.01 * i)) for i, c in enumerate(step)])
                blp.tensor = rows if len(step) > 1 else rows[0]
                try:
                    got = like().reshape(-1).tolist()
                except Exception as e:
                    ctx.violation(f"C03:history:raises", f"evaluation raised {type(e).__name__}: {e} in history {plan}", {"plan": plan})
                    break
                accs, classes = [], []
                for i, g in enumerate(got):
                    want, l2 = reference(dic, rows[i])
                    accs.append(accuracy(g, want))
                    classes.append(classify(l2))
                events.append({"classes": sorted(set(classes)), "flag": bool(like.rescale), "results": sorted(set(accs))})
                det.append({"step": step, "got": got, "classes": classes, "acc": accs, "flag": bool(like.rescale)})
                ctx.add("evaluations")
            traces.append(events)
            details.append({"tip_states": tip_states, "plan": plan, "detail": det})
            ctx.distinct(("history", tip_states, json.dumps(plan)))
    verdicts = validate_traces(ctx, traces, POLICY)
    for tid, (events, dt) in enumerate(zip(traces, details), 1):
        if tid not in verdicts and not events:
            continue            # the first evaluation of this history raised (reported above as C03:history:raises): nothing was recorded
        if tid not in verdicts:
            raise Machinery(f"trace {tid} not consumed by TraceRescale")
        clause, at = verdicts[tid]
        ctx.add("traces_validated_against_impl")
        if clause:
            step = dt["detail"][at - 1]
            kind = "states" if dt["tip_states"] else "partials"
            if clause.startswith("bind:"):
                ctx.notes.append(f"MODEL-DRIFT: history {dt['plan']} ({kind}) step {at}: {clause}: {step}")
                print(f"MODEL-DRIFT: history {dt['plan']} ({kind}) step {at}: {clause}: {step}")
            else:
                ctx.violation(f"C03:history:{clause}:{kind}:{'+'.join(step['classes'])}",
                              f"history {dt['plan']} (tip {kind}), evaluation {at}: {clause} violated: classes {step['classes']}, results {step['acc']}, "
                              f"values {step['got']}, rescale flag {step['flag']}", {"plan": dt["plan"], "tip_states": dt["tip_states"]})
    ctx.sample({"history": details[5]["plan"], "events": traces[5]}, limit=2)
    ctx.cov["rule"] = ("size sweep: (shape, tips, tip representation, columns) with the class of the smallest site likelihood measured by the reference; "
                       "histories: all class sequences of length <= 3 + batched mixtures; non-trivial = some site likelihood below the smallest normal double")
