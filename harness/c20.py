"""C20 - smoothing / integrated priors and sufficient statistics match their densities.

1. TLC: Gmrf.tla - sum of squared first differences / w = x'Qx for the tridiagonal (weighted)
   precision matrix, exact rationals, fields of length 2..5 over {-2..2}, weights {1,2,4}^(n-1);
   Coalescent.tla (C08) - the per-piece sufficient statistics regroup the interval terms.
2. spec -> code: emitted cases through GMRF() (plain, weighted), precision_matrix() (the published
   matrix must reproduce the density's quadratic form), time-aware variants on real time trees
   (weights transcribed from the spec's definition), GMRFGammaIntegrated and
   ConstantCoalescentIntegrated against numerical integration of the defining products, the
   sufficient statistics / coalescent counts of both piecewise-constant coalescents (the block-update
   sampler's inputs), single and batched, random real fields up to length 50.
"""
from __future__ import annotations

import json
import math
import random
import shutil
from fractions import Fraction

import mpmath

from . import tlc
from . import c08
from .common import Ctx, Machinery, use_src

LEVEL = "exploration"
LOG2PI = math.log(2 * math.pi)


def fr(p):
    return Fraction(p[0], p[1])


def run_tlc(emit, tier):
    d = tlc.workdir("c20")
    t, c = tlc.write_mc(d, "MC_Gmrf", "Gmrf",
                        {"Dims": "2..4" if tier == "quick" else "2..5", "FieldVals": "-2..2", "WeightVals": "{<<1,1>>,<<2,1>>,<<1,4>>}",
                         "Emit": "TRUE" if emit else "FALSE", "EmitMod": "13" if tier == "quick" else "29"},
                        ["SPECIFICATION Spec"] + ([] if emit else ["INVARIANT FormsAgree", "INVARIANT RowsSumToZero"]))
    res = tlc.run(t, c, workers=8 if emit else 16, tag="c20", timeout=1800)
    shutil.rmtree(d, ignore_errors=True)
    return res


def P(id_, t):
    return {"id": id_, "type": "Parameter", "tensor": t}


def close(a, b, tol=1e-10):
    return abs(a - b) <= tol * max(1.0, abs(b))


def gmrf_logp(S, n, tau):
    return (n - 1) / 2 * math.log(tau) - tau / 2 * S - (n - 1) / 2 * LOG2PI


def check_case(ctx: Ctx, case):
    import torch
    from torchtree.core.utils import process_object
    x = [float(v) for v in case["x"]]
    w = [float(fr(v)) for v in case["w"]]
    S = float(fr(case["s"]))
    Q = [[float(fr(v)) for v in row] for row in case["q"]]
    n = len(x)
    plain = all(v == 1.0 for v in w)
    for tau in (1.0, 2.0, 0.25):
        ctx.add("evaluations")
        ctx.distinct(json.dumps([case["x"], case["w"], tau]), not plain)
        js = {"id": "gmrf", "type": "GMRF", "x": P("field", x), "precision": P("tau", [tau])}
        if not plain:
            js["weights"] = P("w", w)
        try:
            g = process_object(js, {})
            got = float(g())
            pm = g.precision_matrix()
        except Exception as e:
            ctx.violation(f"C20:GMRF:raises:{'plain' if plain else 'weighted'}", f"{type(e).__name__}: {e}; {js}", {"json": js})
            return
        want = gmrf_logp(S, n, tau)
        variant = "plain" if plain else "weighted"
        if not close(got, want):
            ctx.violation(f"C20:GMRF:density:{variant}", f"GMRF ({variant}) x={x} w={w} tau={tau}: {got!r}, expected {want!r}", {"json": js})
            return
        xt = torch.tensor(x)
        quad = float(xt @ pm @ xt)
        if not close(quad, tau * S, 1e-10):
            ctx.violation(f"C20:GMRF:precision-matrix:{variant}", f"GMRF ({variant}) x={x} w={w} tau={tau}: x'Qx with the published precision matrix = {quad!r}, "
                          f"the density uses tau*S = {tau * S!r}", {"json": js})
        elif any(abs(float(pm[i][j]) - tau * Q[i][j]) > 1e-12 for i in range(n) for j in range(n)):
            ctx.violation(f"C20:GMRF:precision-matrix-entries:{variant}", f"published precision matrix {pm.tolist()} differs from tau*Q {Q}", {"json": js})


def time_tree(rnd, n):
    """A ratio-parameterised time tree from JSON with random dates / parameters; returns (tree model, dic)."""
    from .c01 import random_tree
    from . import nh
    tree = random_tree(rnd, n)

    def enc(t):
        return ["L", t] if isinstance(t, int) else ["N", enc(t[0]), enc(t[1])]
    dates = [rnd.choice([0, 0, 1, 2]) for _ in range(n)]
    if min(dates) > 0:
        dates[0] = 0
    case = {"tree": enc(tree), "dates": dates, "kind": "shift", "x": [[rnd.choice([1, 2, 3]), 2] for _ in range(n - 1)]}
    return nh.build_model(case)


def check_time_aware(ctx: Ctx, rnd, tier):
    import torch
    from torchtree.distributions.gmrf import GMRF
    from torchtree.core.parameter import Parameter
    for _ in range(10 if tier == "quick" else 80):
        n = rnd.randint(3, 9)
        tm, dic = time_tree(rnd, n)
        internal = sorted(tm.node_heights[n:].tolist())
        hs = [0.0] + internal
        d = [b - a for a, b in zip(hs[:-1], hs[1:])]
        for rescale in (True, False):
            field = [rnd.uniform(-2, 2) for _ in range(n - 1)]
            tau = rnd.uniform(0.3, 3.0)
            w = [((d[i] + d[i + 1]) / 2.0) / (hs[-1] if rescale else 1.0) for i in range(n - 2)]
            if any(v <= 0 for v in w):
                continue
            S = sum((field[i + 1] - field[i]) ** 2 / w[i] for i in range(n - 2))
            ctx.add("evaluations")
            ctx.distinct(("time-aware", n, rescale, tuple(round(v, 6) for v in field)))
            g = GMRF("g", Parameter("f", torch.tensor(field)), Parameter("t", torch.tensor([tau])), tree_model=tm, rescale=rescale)
            got = float(g())
            want = gmrf_logp(S, n - 1, tau)
            if not close(got, want, 1e-9):
                ctx.violation(f"C20:GMRF:density:time-aware{'-rescaled' if rescale else ''}", f"time-aware GMRF: {got!r}, expected {want!r} (durations {d})", {"field": field})
                continue
            xt = torch.tensor(field)
            quad = float(xt @ g.precision_matrix() @ xt)
            if not close(quad, tau * S, 1e-9):
                ctx.violation(f"C20:GMRF:precision-matrix:time-aware{'-rescaled' if rescale else ''}",
                              f"time-aware GMRF: x'Qx with the published precision matrix = {quad!r}, the density uses tau*S = {tau * S!r}", {"field": field})
                continue
            # history: matrix read, the tree moves, the density is evaluated, the matrix is read again (a block update after a tree
            # move): the matrix must be the one of the CURRENT heights
            sh = dic["shifts"]
            old_shifts = sh.tensor.detach().clone()
            sh.tensor = old_shifts * torch.tensor([1.0 + 0.37 * ((i % 3) + 1) for i in range(old_shifts.numel())])
            internal2 = sorted(tm.node_heights[n:].tolist())
            hs2 = [0.0] + internal2
            d2 = [b - a for a, b in zip(hs2[:-1], hs2[1:])]
            w2 = [((d2[i] + d2[i + 1]) / 2.0) / (hs2[-1] if rescale else 1.0) for i in range(n - 2)]
            if all(v > 0 for v in w2):
                S2 = sum((field[i + 1] - field[i]) ** 2 / w2[i] for i in range(n - 2))
                got2 = float(g())
                quad2 = float(xt @ g.precision_matrix() @ xt)
                ctx.add("time_aware_histories")
                if not close(got2, gmrf_logp(S2, n - 1, tau), 1e-9):
                    ctx.violation(f"C20:GMRF:density:time-aware:after-tree-move", f"time-aware GMRF after the tree moved: {got2!r}, expected {gmrf_logp(S2, n - 1, tau)!r}", {"field": field})
                elif not close(quad2, tau * S2, 1e-9):
                    ctx.violation(f"C20:GMRF:precision-matrix:time-aware:after-tree-move",
                                  f"time-aware GMRF, matrix read / tree move / density / matrix read: x'Qx = {quad2!r}, the density uses tau*S = {tau * S2!r} "
                                  f"(the matrix of the old heights gives {tau * S!r})", {"field": field})
            sh.tensor = old_shifts


def check_integrated(ctx: Ctx, rnd, tier):
    import torch
    import torchtree.evolution.coalescent as C
    from torchtree.core.utils import process_object
    for it in range(8 if tier == "quick" else 60):
        n = rnd.randint(2, 8 if tier == "quick" else 50)
        x = [rnd.uniform(-2, 2) for _ in range(n)]
        a, b = rnd.uniform(0.5, 4.0), rnd.uniform(0.5, 4.0)
        weighted = rnd.random() < 0.5 and n > 2
        w = [rnd.uniform(0.3, 3.0) for _ in range(n - 1)] if weighted else [1.0] * (n - 1)
        S = sum((x[i + 1] - x[i]) ** 2 / w[i] for i in range(n - 1))
        ctx.add("evaluations")
        ctx.distinct(("integrated", it))
        js = {"id": "g", "type": "GMRFGammaIntegrated", "x": P("f", x), "shape": a, "rate": b}
        if weighted:
            js["weights"] = P("w", w)
        got = float(process_object(js, {})())
        # the integrand is sharply peaked for large n: integrate relative to its mode, with break points around it
        lf = lambda tau: (a * mpmath.log(b) - mpmath.loggamma(a) + (a - 1) * mpmath.log(tau) - b * tau
                          + (n - 1) / 2 * mpmath.log(tau) - tau / 2 * S - (n - 1) / 2 * LOG2PI)
        k = a - 1 + (n - 1) / 2
        mode = k / (b + S / 2) if k > 0 else 0.0
        if mode > 0:
            top = lf(mode)
            pts = [0, mode / 8, mode / 2, mode, 2 * mode, 4 * mode, 16 * mode, mpmath.inf]
        else:
            top = mpmath.mpf(0)
            pts = [0, 1, 10, mpmath.inf]
        with mpmath.workdps(30):
            want = float(top + mpmath.log(mpmath.quad(lambda tau: mpmath.exp(lf(tau) - top), pts)))
        if not close(got, want, 1e-8):
            ctx.violation(f"C20:GMRFGammaIntegrated:{'weighted' if weighted else 'plain'}", f"integrated GMRF (n={n}, shape={a}, rate={b}): {got!r}, numerical integration {want!r}",
                          {"json": js})
        # batched field [B, N] given at construction
        if it % 3 == 0:
            B = rnd.choice([2, 3])
            xs = [[rnd.uniform(-2, 2) for _ in range(n)] for _ in range(B)]
            gb = process_object({"id": "g", "type": "GMRFGammaIntegrated", "x": P("f", xs), "shape": a, "rate": b}, {})
            vals = gb().reshape(-1).tolist()
            singles = [float(process_object({"id": "g", "type": "GMRFGammaIntegrated", "x": P("f", r), "shape": a, "rate": b}, {})()) for r in xs]
            if not all(close(u, v, 1e-10) for u, v in zip(vals, singles)):
                ctx.violation("C20:GMRFGammaIntegrated:batched", f"batched field [B={B}, N={n}]: {vals} vs per-slice {singles}", {"xs": xs})
        # constant coalescent with the population size integrated out
        m = rnd.randint(2, 10)
        samp = sorted(rnd.choice([0.0, 0.0, 0.4, 1.0]) for _ in range(m))
        coal, t = [], 0.0
        for i in range(m - 1):
            t = max(t, samp[min(i + 1, m - 1)]) + rnd.uniform(0.05, 0.8)
            coal.append(t)
        heights = torch.tensor(samp + coal)
        got = float(C.ConstantCoalescentIntegrated(a, b).log_prob(heights))
        tab = c08.interval_table(samp, coal)
        tot = sum(k * (k - 1) / 2 * (t1 - t0) for t0, t1, k in tab)
        g2 = lambda th: mpmath.exp(a * mpmath.log(b) - mpmath.loggamma(a) - (a + 1) * mpmath.log(th) - b / th - (m - 1) * mpmath.log(th) - tot / th)
        want = float(mpmath.log(mpmath.quad(g2, [0, 0.5, 2, 20, mpmath.inf])))
        if not close(got, want, 1e-8):
            ctx.violation("C20:ConstantCoalescentIntegrated", f"integrated constant coalescent (n={m}, alpha={a}, beta={b}): {got!r}, numerical integration {want!r}",
                          {"samp": samp, "coal": coal})


def check_batched_suffstats(ctx: Ctx, rnd):
    """sufficient_statistics with batched thetas / heights vs per-row evaluation."""
    import torch
    import torchtree.evolution.coalescent as C
    for _ in range(6):
        m = rnd.randint(3, 7)
        rows = []
        for b in range(3):
            samp = sorted(rnd.choice([0.0, 0.5, 1.0, 1.5]) for _ in range(m))
            samp[0] = 0.0
            coal, t = [], 0.0
            for i in range(m - 1):
                t = max(t, samp[min(i + 1, m - 1)]) + rnd.uniform(0.05, 0.8)
                coal.append(t)
            rows.append(samp + coal)
        H = torch.tensor(rows)
        th = torch.tensor([[rnd.uniform(0.5, 3) for _ in range(m - 1)] for _ in range(3)])
        ctx.add("evaluations")
        try:
            ss, cnt = C.PiecewiseConstantCoalescent(th).sufficient_statistics(H)
        except Exception as e:
            ctx.cov.setdefault("batched_suffstats_raised", []).append(f"{type(e).__name__}: {str(e)[:80]}")
            continue
        for b in range(3):
            s1, c1 = C.PiecewiseConstantCoalescent(th[b]).sufficient_statistics(H[b])
            if not torch.allclose(ss[b].double(), s1.double(), rtol=1e-10, atol=1e-12):
                ctx.violation("C20:PiecewiseConstantCoalescent:sufficient-statistics:batched", f"batched sufficient statistics row {b}: {ss[b].tolist()} vs {s1.tolist()}",
                              {"heights": rows})
                break


def run(ctx: Ctx):
    use_src()
    import logging
    logging.disable(logging.CRITICAL)
    rnd = random.Random(ctx.seed + 20)
    res = run_tlc(False, ctx.tier)
    ctx.tlc(res, "Gmrf: difference form = quadratic form")
    if res.violations:
        raise Machinery(f"Gmrf.tla: forms disagree on the lattice (spec error): {res.violations[0].trace[-1][1]}")
    cases = run_tlc(True, ctx.tier).emitted("CASE")
    if len(cases) < 50:
        raise Machinery(f"too few cases emitted: {len(cases)}")
    for case in cases:
        check_case(ctx, case)
        ctx.add("traces_validated_against_impl")
    ctx.sample(cases[len(cases) // 2], limit=2)
    # sufficient statistics: the TLC-checked regrouping of Coalescent.tla, replayed by C08's case check
    for plan in c08.PLANS["quick"][1:3]:
        r2 = c08.run_tlc(plan, False)
        ctx.tlc(r2, f"Coalescent (sufficient statistics) n={plan[0]} {plan[1]}")
        if r2.violations:
            raise Machinery("Coalescent.tla Agree violated")
        seen = set()
        em = [c for c in c08.run_tlc(plan, True).emitted("CASE")]
        for case in em[:: max(1, len(em) // 150)]:
            k = json.dumps(case, sort_keys=True)
            if k in seen:
                continue
            seen.add(k)
            c08.check_case(ctx, case, rnd)
    check_time_aware(ctx, rnd, ctx.tier)
    check_integrated(ctx, rnd, ctx.tier)
    check_batched_suffstats(ctx, rnd)
    # random real fields up to length 50 through the transliterated forms
    import torch
    from torchtree.core.utils import process_object
    for _ in range(20 if ctx.tier == "quick" else 200):
        n = rnd.randint(2, 50)
        x = [rnd.uniform(-3, 3) for _ in range(n)]
        tau = 10 ** rnd.uniform(-1, 1)
        S = sum((x[i + 1] - x[i]) ** 2 for i in range(n - 1))
        g = process_object({"id": "gmrf", "type": "GMRF", "x": P("field", x), "precision": P("tau", [tau])}, {})
        ctx.add("evaluations")
        xt = torch.tensor(x)
        if not close(float(g()), gmrf_logp(S, n, tau), 1e-10) or not close(float(xt @ g.precision_matrix() @ xt), tau * S, 1e-9):
            ctx.violation("C20:GMRF:random-field", f"random field of length {n}: density {float(g())!r} vs {gmrf_logp(S, n, tau)!r}", {"x": x})
    ctx.cov["rule"] = ("TLC-emitted (field, weights) cases x three precisions; time-aware GMRFs on random time trees; integrated forms vs quadrature; "
                       "sufficient statistics via Coalescent.tla cases; non-trivial = weighted / time-aware / heterochronous")
    ctx.assumptions += ["numerical integration: mpmath.quad at 30 digits", "GMRFCovariate is checked for its value only through the plain precision matrix"]
