"""C07 - every change of variables reports its true log-Jacobian and inverse.

1. TLC: (a) NodeHeights.tla - the Jacobian determinant of both node-height transforms, built by
   the chain rule and expanded by Leibniz, equals the closed form, for every small tree / date
   vector / parameter point; each case is emitted with the exact determinant.  (b) Transforms.tla
   - the composition rule det J = prod g'((Dx)_i) for diagonal and cumulative dependency patterns
   and the first-difference inverse, on an integer lattice.
2. Real transforms: for the emitted tree cases log_abs_det_jacobian and the model call must be the
   log of the exact determinant (1e-12), single and batched; for every invertible transform shipped
   (tree transforms, CumSum, CumSumExp, SoftPlus, CumSumSoftPlus, Log, log-rate-difference and the
   torch transforms the CLI emits: Exp, Sigmoid, Affine, StickBreaking) at lattice and random
   points: reported log-Jacobian = log|det| of the autodiff Jacobian of the forward map (1e-9, the
   property's own yardstick) = the closed form given by the spec's rule where it applies;
   inv(forward(x)) = x; a TransformedParameter, when called, returns the log-Jacobian of its current
   value (also after updates of the underlying parameter).
"""
from __future__ import annotations

import json
import math
import random
import shutil

from . import nh, tlc
from .common import Ctx, Machinery, use_src

LEVEL = "exploration"


def autodiff_logdet(f, x):
    import torch
    J = torch.autograd.functional.jacobian(f, x)
    J = J.reshape(x.numel(), x.numel()) if J.numel() == x.numel() ** 2 else J
    if J.shape[0] != J.shape[1]:
        return None
    return float(torch.linalg.slogdet(J)[1])


def softplus(u):
    return math.log1p(math.exp(-abs(u))) + max(u, 0.0)


def closed_form(name, x):
    """log|det J| by the rule of Transforms.tla with the real g."""
    cs, c = [], 0.0
    for v in x:
        c += v
        cs.append(c)
    logsig = lambda u: -softplus(-u)
    return {"CumSumTransform": lambda: 0.0,
            "CumSumExpTransform": lambda: sum(cs),
            "SoftPlusTransform": lambda: sum(logsig(v) for v in x),
            "CumSumSoftPlusTransform": lambda: sum(logsig(v) for v in cs),
            "LogTransform": lambda: -sum(math.log(v) for v in x),
            "ExpTransform": lambda: sum(x),
            "SigmoidTransform": lambda: sum(logsig(v) + logsig(-v) for v in x)}[name]()


def shipped_transforms():
    import torch
    import torchtree.distributions.transforms as T
    out = [("CumSumTransform", T.CumSumTransform(), "real"), ("CumSumExpTransform", T.CumSumExpTransform(), "real"),
           ("SoftPlusTransform", T.SoftPlusTransform(), "real"), ("CumSumSoftPlusTransform", T.CumSumSoftPlusTransform(), "real"),
           ("LogTransform", T.LogTransform(), "positive"),
           ("ExpTransform", torch.distributions.ExpTransform(), "real"), ("SigmoidTransform", torch.distributions.SigmoidTransform(), "real"),
           ("AffineTransform", torch.distributions.AffineTransform(1.5, -2.0), "real"),
           ("StickBreakingTransform", torch.distributions.StickBreakingTransform(), "real")]
    return out


def check_elementwise(ctx: Ctx, rnd, tier):
    import torch
    pts = [[0.0, 0.0, 0.0], [1.0, -2.0, 0.5], [-1.0, -1.0, 2.0], [2.0, 1.0, -3.0], [0.25, 0.5], [3.0]]
    pts += [[rnd.uniform(-3, 3) for _ in range(rnd.randint(1, 6))] for _ in range(20 if tier == "quick" else 200)]
    for name, tr, dom in shipped_transforms():
        for p in pts:
            xs = [abs(v) + 0.1 for v in p] if dom == "positive" else list(p)
            x = torch.tensor(xs)
            ctx.add("evaluations")
            ctx.distinct((name, tuple(round(v, 6) for v in xs)))
            try:
                y = tr(x)
                rep = tr.log_abs_det_jacobian(x, y)
                rep = float(rep.sum())
                back = tr.inv(y)
            except NotImplementedError:
                ctx.cov.setdefault("not_invertible_as_shipped", [])
                if name not in ctx.cov["not_invertible_as_shipped"]:
                    ctx.cov["not_invertible_as_shipped"].append(name)
                break
            except Exception as e:
                ctx.violation(f"C07:{name}:raises", f"{name} at x={xs}: {type(e).__name__}: {e}", {"transform": name, "x": xs})
                break
            if y.shape == x.shape:
                ad = autodiff_logdet(lambda t: tr(t), x)
            else:       # StickBreaking: R^k -> simplex of k+1: Jacobian w.r.t. the first k coordinates
                ad = autodiff_logdet(lambda t: tr(t)[..., :-1], x)
            try:
                cf = closed_form(name, xs)
            except KeyError:
                cf = None
            if cf is not None and ad is not None and abs(cf - ad) > 1e-8 * max(1.0, abs(ad)):
                raise Machinery(f"closed form ({cf}) and autodiff ({ad}) disagree for {name} at {xs}: spec rule misapplied")
            if ad is not None and not abs(rep - ad) <= 1e-9 * max(1.0, abs(ad)):
                ctx.violation(f"C07:{name}:log-jacobian", f"{name} at x={xs}: reported log|det J| {rep!r}, autodiff Jacobian gives {ad!r}"
                              + (f", closed form {cf!r}" if cf is not None else ""), {"transform": name, "x": xs})
                break
            if back.shape != x.shape or float((back - x).abs().max()) > 1e-9 * max(1.0, float(x.abs().max())):
                ctx.violation(f"C07:{name}:inverse", f"{name} at x={xs}: inv(forward(x)) = {back.tolist()}", {"transform": name, "x": xs})
                break


def check_tails(ctx: Ctx):
    """Far ends of the domains (a positive parameter of 1e-9 .. 1e-16 sits at x = -20 .. -37 under a soft-plus link): the reported
    log-Jacobian against the numerically stable closed form of Transforms.tla's rule, in double and single precision."""
    import torch
    tails = {"real": [[-36.0, -20.0, -12.0], [-30.0], [25.0, 30.0], [-15.0, 20.0, -25.0]], "positive": [[1e-12, 3e-9], [1e9, 1e12], [1e-6, 1e6]]}
    for name, tr, dom in shipped_transforms():
        if name in ("AffineTransform", "StickBreakingTransform"):
            continue
        for xs in tails[dom]:
            for dtype, tol in ((torch.float64, 1e-9), (torch.float32, 2e-5)):
                x = torch.tensor(xs, dtype=dtype)
                ctx.add("evaluations")
                ctx.distinct(("tail", name, tuple(xs), str(dtype)))
                try:
                    rep = float(tr.log_abs_det_jacobian(x, tr(x)).sum())
                except Exception as e:
                    ctx.violation(f"C07:{name}:raises", f"{name} at x={xs} ({dtype}): {type(e).__name__}: {e}", {"transform": name, "x": xs})
                    break
                cf = closed_form(name, [float(v) for v in x.double().tolist()])
                if not math.isfinite(rep) or abs(rep - cf) > tol * max(1.0, abs(cf)):
                    ctx.violation(f"C07:{name}:log-jacobian:tail", f"{name} at x={xs} ({str(dtype).split('.')[-1]}): reported log|det J| {rep!r}, closed form {cf!r}",
                                  {"transform": name, "x": xs, "dtype": str(dtype)})
                    break


def check_tree_cases(ctx: Ctx, cases):
    import torch
    groups = {}
    for case in cases:
        n = len(case["dates"])
        kind = case["kind"]
        x = [float(nh.fr(v)) for v in case["x"]]
        heights = [float(nh.fr(v)) for v in case["heights"]]
        det = nh.fr(case["det"])
        want = math.log(det)
        ctx.add("evaluations")
        ctx.distinct(json.dumps([case["tree"], case["dates"], kind, case["x"]]), len(set(case["dates"])) > 1)
        try:
            tm, dic = nh.build_model(case)
            xt = torch.tensor(x)
            y = tm.transform(xt)
            rep = float(tm.transform.log_abs_det_jacobian(xt, y))
            call = float(tm())
        except Exception as e:
            ctx.violation(f"C07:tree-{kind}:raises", f"{type(e).__name__}: {e}", {"case": case})
            continue
        name = type(tm.transform).__name__
        if not abs(rep - want) <= 1e-12 * max(1.0, abs(want)):
            ad = autodiff_logdet(lambda t: tm.transform(t), xt)
            ctx.violation(f"C07:{name}:log-jacobian", f"{name}: reported {rep!r}, exact determinant {det} -> {want!r} (autodiff {ad!r}); tree {case['tree']} "
                          f"dates {case['dates']} x {x}", {"case": case})
        elif not abs(call - want) <= 1e-12 * max(1.0, abs(want)):
            ctx.violation(f"C07:{name}:model-call", f"ReparameterizedTimeTreeModel() returns {call!r}, the log-Jacobian is {want!r}", {"case": case})
        groups.setdefault(json.dumps([case["tree"], case["dates"], kind]), []).append((case, x, want))
        ctx.add("traces_validated_against_impl")
    # batched parameters and the protocol after an update
    for g in list(groups.values())[:: max(1, len(groups) // 30)]:
        if len(g) < 2:
            continue
        case, _, _ = g[0]
        xs = [e[1] for e in g[:3]]
        ctx.add("evaluations")
        try:
            tm, dic = nh.build_model(case, xs=xs)
            got = tm().tolist()
        except Exception as e:
            ctx.violation(f"C07:tree-{case['kind']}:batched-raises", f"batched model call raised {type(e).__name__}: {e}", {"case": case})
            continue
        for b, e in enumerate(g[:3]):
            if not abs(got[b] - e[2]) <= 1e-12 * max(1.0, abs(e[2])):
                ctx.violation(f"C07:tree-{case['kind']}:batched", f"batched model call slice {b} = {got[b]!r}, expected {e[2]!r}", {"case": e[0]})
                break
        # protocol: after the parameters change, the call returns the log-Jacobian of the new value
        tm, dic = nh.build_model(case)
        tm()
        other = g[-1]
        if case["kind"] == "ratio":
            dic["ratios"].tensor = torch.tensor(other[1][:-1])
            dic["root_height"].tensor = torch.tensor(other[1][-1:])
        else:
            dic["shifts"].tensor = torch.tensor(other[1])
        v = float(tm())
        if not abs(v - other[2]) <= 1e-12 * max(1.0, abs(other[2])):
            ctx.violation(f"C07:tree-{case['kind']}:stale-log-jacobian", f"after a parameter update the model call returns {v!r}, the log-Jacobian of the current "
                          f"value is {other[2]!r}", {"case": case})


def check_inplace_protocol(ctx: Ctx, cases, rnd):
    """A model built on one Parameter, updated in place + notified (optimiser style): the call must
    return the log-Jacobian of the current value."""
    import torch
    from torchtree.core.parameter import Parameter
    from torchtree.evolution.tree_model import ReparameterizedTimeTreeModel
    groups = {}
    for c in cases:
        groups.setdefault(json.dumps([c["tree"], c["dates"], c["kind"]]), []).append(c)
    pairs = [g for g in groups.values() if len(g) >= 2]
    for g in rnd.sample(pairs, min(len(pairs), 25)):
        a, b = g[0], g[-1]
        xa, xb = [float(nh.fr(v)) for v in a["x"]], [float(nh.fr(v)) for v in b["x"]]
        want = math.log(nh.fr(b["det"]))
        tm0, dic = nh.build_model(a)
        p = Parameter("p", torch.tensor(xa))
        tm = ReparameterizedTimeTreeModel("tree2", tm0.tree, dic["taxa"], **({"ratios_root_height": p} if a["kind"] == "ratio" else {"shifts": p}))
        ctx.add("evaluations")
        tm()
        with torch.no_grad():
            p.tensor.copy_(torch.tensor(xb))
        p.fire_parameter_changed()
        got = float(tm())
        if not abs(got - want) <= 1e-12 * max(1.0, abs(want)):
            ctx.violation(f"C07:tree-{a['kind']}:stale-log-jacobian-after-inplace-update",
                          f"after an in-place update + notification the model call returns {got!r}; the log-Jacobian of the current value is {want!r}",
                          {"case": a, "to": b})


def check_rate_transform(ctx: Ctx, cases, rnd):
    import torch
    from torchtree.evolution.rate_transform import LogDifferenceRateTransform
    seen = set()
    for case in cases:
        k = json.dumps(case["tree"])
        if k in seen:
            continue
        seen.add(k)
        n = len(case["dates"])
        tm, dic = nh.build_model(case)
        tr = LogDifferenceRateTransform(tm)
        x = torch.tensor([rnd.uniform(0.2, 3.0) for _ in range(2 * n - 2)])
        ctx.add("evaluations")
        ctx.distinct(("LogDifferenceRateTransform", k))
        try:
            y = tr(x)
            rep = float(tr.log_abs_det_jacobian(x, y))
        except Exception as e:
            ctx.violation("C07:LogDifferenceRateTransform:raises", f"{type(e).__name__}: {e}", {"case": case})
            continue
        ad = autodiff_logdet(lambda t: tr(t), x)
        cf = -float(x.log().sum())
        if abs(cf - ad) > 1e-9 * max(1.0, abs(ad)):
            raise Machinery(f"closed form -sum(log r) ({cf}) and autodiff ({ad}) disagree for the log-rate-difference transform")
        if not abs(rep - ad) <= 1e-9 * max(1.0, abs(ad)):
            ctx.violation("C07:LogDifferenceRateTransform:log-jacobian", f"tree {case['tree']}: reported {rep!r}, autodiff Jacobian gives {ad!r} (= -sum log r)",
                          {"case": case, "x": x.tolist()})
        try:
            tr.inv(y)
        except NotImplementedError:
            if "LogDifferenceRateTransform" not in ctx.cov.setdefault("not_invertible_as_shipped", []):
                ctx.cov["not_invertible_as_shipped"].append("LogDifferenceRateTransform")


def check_transformed_parameter(ctx: Ctx, rnd):
    import torch
    from torchtree.core.utils import process_object
    for tname, mod in (("ExpTransform", "torch.distributions"), ("SigmoidTransform", "torch.distributions"),
                       ("CumSumExpTransform", "torchtree.distributions.transforms"), ("LogTransform", "torchtree.distributions.transforms")):
        dic = {}
        x0 = [0.3, 1.2, 0.7]
        tp = process_object({"id": "tp", "type": "TransformedParameter", "transform": f"{mod}.{tname}",
                             "x": {"id": "x", "type": "Parameter", "tensor": x0}}, dic)
        for step in range(3):
            xs = [v + 0.37 * step for v in x0]
            dic["x"].tensor = torch.tensor(xs)
            ctx.add("evaluations")
            want = tp.transform.log_abs_det_jacobian(torch.tensor(xs), tp.transform(torch.tensor(xs)))
            got = tp()
            if got.shape != want.shape or float((got - want).abs().max()) > 1e-12:
                ctx.violation(f"C07:TransformedParameter:{tname}", f"TransformedParameter({tname})() after update {step} returns {got.tolist()}, the log-Jacobian of "
                              f"the current value is {want.tolist()}", {"transform": tname, "x": xs})
                break
            if float((tp.tensor - tp.transform(torch.tensor(xs))).abs().max()) > 1e-12:
                ctx.violation(f"C07:TransformedParameter:{tname}:tensor", f"TransformedParameter({tname}).tensor is stale after update {step}", {"transform": tname})
                break


def run(ctx: Ctx):
    use_src()
    import logging
    logging.disable(logging.CRITICAL)
    rnd = random.Random(ctx.seed + 7)
    d = tlc.workdir("c07")
    t, c = tlc.write_mc(d, "MC_Transforms", "Transforms", {"Dim": "4", "Vals": "-2..2"}, ["SPECIFICATION Spec", "INVARIANT DetRule", "INVARIANT InverseRule"])
    res = tlc.run(t, c, workers=8, tag="c07", timeout=600)
    shutil.rmtree(d, ignore_errors=True)
    ctx.tlc(res, "Transforms Dim=4 Vals=-2..2")
    if res.violations:
        raise Machinery("Transforms.tla: composition rule violated on the lattice (spec error)")
    allcases = []
    for plan in nh.PLANS[ctx.tier]:
        if ctx.tier == "quick" and plan[0] == 4:
            plan = plan[:5] + (plan[5] * 3,)
        res = nh.run_tlc(plan, False)
        ctx.tlc(res, f"NodeHeights (JacobianClosedForm) n={plan[0]} {plan[1]}")
        if res.violations:
            raise Machinery("NodeHeights.tla AllOK violated (spec error)")
        cases = [nh.norm_case(c) for c in nh.run_tlc(plan, True).emitted("CASE")]
        check_tree_cases(ctx, cases)
        allcases += cases
    ctx.sample({k: allcases[len(allcases) // 2][k] for k in ("tree", "dates", "kind", "x", "det")}, limit=2)
    # self-check of the transliteration on the emitted cases, then larger random trees through it
    from fractions import Fraction
    from .oracle_phylo import postorder_triples
    for case in allcases[:: max(1, len(allcases) // 200)]:
        hh, bb, dd = nh.oracle(nh.spec_tree(case["tree"]), case["dates"], case["kind"], [nh.fr(v) for v in case["x"]])
        if hh != [nh.fr(v) for v in case["heights"]] or bb != [nh.fr(v) for v in case["branches"]] or Fraction(dd) != nh.fr(case["det"]):
            raise Machinery(f"nh.oracle disagrees with NodeHeights.tla on {case['tree']} {case['dates']} {case['kind']}")
        ctx.add("oracle_self_checks")
    from .c01 import random_tree
    big = []
    for _ in range(40 if ctx.tier == "quick" else 400):
        n = rnd.randint(5, 9 if ctx.tier == "quick" else 12)
        tree = random_tree(rnd, n)
        dates = [rnd.choice([0, 0, 1, 2, 3, 5]) for _ in range(n)]
        kind = rnd.choice(["ratio", "shift"])
        triples, root = postorder_triples(tree, n)
        if kind == "ratio":
            x = [Fraction(rnd.choice([1, 2, 3, 5, 7]), 8) for _ in range(n - 1)]
            hh0, _, _ = nh.oracle(tree, dates, "shift", [Fraction(1)] * (n - 1))      # any valid heights: to get the root bound
            mind, maxd = min(dates), max(dates)
            bound_root = max(d if mind == 0 else maxd - d for d in dates)
            x[root - n] = Fraction(bound_root) + rnd.choice([1, 2, 3])
        else:
            x = [Fraction(rnd.choice([1, 2, 3, 4]), 2) for _ in range(n - 1)]
        hh, bb, dd = nh.oracle(tree, dates, kind, x)

        def enc(t):
            return ["L", t] if isinstance(t, int) else ["N", enc(t[0]), enc(t[1])]
        pr = lambda f: [Fraction(f).numerator, Fraction(f).denominator]
        big.append({"tree": enc(tree), "dates": dates, "kind": kind, "x": [pr(v) for v in x], "heights": [pr(v) for v in hh],
                    "branches": [pr(v) for v in bb], "det": pr(dd), "post": [list(t) for t in triples]})
    check_tree_cases(ctx, big)
    check_inplace_protocol(ctx, allcases + big, rnd)
    check_rate_transform(ctx, allcases + big[:10], rnd)
    check_elementwise(ctx, rnd, ctx.tier)
    check_tails(ctx)
    from . import c06
    c06.check_smooth_difference(ctx, rnd, ctx.tier)      # the inverse clause for the smooth-max difference transform
    check_transformed_parameter(ctx, rnd)
    ctx.cov["rule"] = ("tree transforms: TLC-emitted cases with exact determinants; other transforms: lattice + random points; every case compares the reported "
                       "log-Jacobian with the autodiff Jacobian / exact determinant and applies inverse(forward); non-trivial = heterochronous dates or random point")
    ctx.assumptions += ["transforms without both an inverse and a log-Jacobian (TrilExpDiagonal, ConvexCombination, RescaledRate, Linear) are listed as "
                        "'not invertible as shipped' and not judged", "autodiff Jacobian in float64 is the yardstick named by the property"]
