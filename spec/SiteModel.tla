------------------------------ MODULE SiteModel ------------------------------
(***************************************************************************)
(* C05.  Among-site rate models (evolution/site_model.py).                 *)
(*                                                                         *)
(* Layout and normalisation over exact rationals, with the raw quantile    *)
(* rates q_1..q_K of the discretised distribution as given positive        *)
(* rationals (the Weibull quantile itself is a transcendental leaf that    *)
(* the harness supplies):                                                  *)
(*   no invariant class : probs 1/K each, rates q_k / mean                 *)
(*   invariant class p  : probs (p, (1-p)/K ...), rates (0, q_k / mean)    *)
(*   mean = sum_k prob_k * raw_k ; with a relative rate mu all rates * mu  *)
(* and the lazy cache: parameters carry version counters, Rates /          *)
(* Probabilities recompute when needs_update is set.                       *)
(***************************************************************************)
EXTENDS Rat, TLC, Json

CONSTANTS Cases,    \* records [kind, K, q, p, mu, hasP, hasMu]
          Emit
VARIABLES case, done,
          ver,          \* [shape, invariant, mu -> Nat]  current parameter versions
          cached,       \* versions the cached rates / probabilities were computed from
          needsUpdate, steps

Probs(c) == IF c.kind = "constant" THEN <<ROne>>
            ELSE IF c.kind = "invariant" THEN <<c.p, RSub(ROne, c.p)>>
            ELSE IF c.hasP THEN <<c.p>> \o [k \in 1..c.K |-> RDiv(RSub(ROne, c.p), RInt(c.K))]
            ELSE [k \in 1..c.K |-> RDiv(ROne, RInt(c.K))]
Raw(c) == IF c.kind = "constant" THEN <<ROne>>
          ELSE IF c.kind = "invariant" THEN <<RZero, RDiv(ROne, RSub(ROne, c.p))>>
          ELSE IF c.hasP THEN <<RZero>> \o c.q ELSE c.q
Mean(c) == LET p == Probs(c) r == Raw(c) IN RSumSeq([k \in 1..Len(p) |-> RMul(p[k], r[k])])
Mu(c) == IF c.hasMu THEN c.mu ELSE ROne
Rates(c) == LET r == Raw(c) m == Mean(c) IN [k \in 1..Len(r) |-> RMul(RDiv(r[k], m), Mu(c))]

ProbsOK(c) == LET p == Probs(c) IN RSumSeq(p) = ROne /\ \A k \in 1..Len(p) : RLe(RZero, p[k])
RatesOK(c) == \A k \in 1..Len(Rates(c)) : RLe(RZero, Rates(c)[k])
InvariantOK(c) == (c.kind = "invariant" \/ (c.kind = "weibull" /\ c.hasP)) => Rates(c)[1] = RZero /\ Probs(c)[1] = c.p
MeanOK(c) == LET p == Probs(c) r == Rates(c) IN RSumSeq([k \in 1..Len(p) |-> RMul(p[k], r[k])]) = Mu(c)

Params == {"shape", "invariant", "mu"}
Init == /\ case \in Cases /\ done = FALSE
        /\ ver = [x \in Params |-> 0] /\ cached = [x \in Params |-> -1] /\ needsUpdate = TRUE /\ steps = 0

Emitted == /\ ~done /\ steps = 0 /\ done' = TRUE
           /\ (Emit => PrintT(<<"CASE", ToJson([case |-> case, rates |-> Rates(case), probs |-> Probs(case)])>>))
           /\ UNCHANGED <<case, ver, cached, needsUpdate, steps>>
SetParam(x) == /\ steps < 4 /\ ver' = [ver EXCEPT ![x] = @ + 1] /\ needsUpdate' = TRUE     \* handle_parameter_changed
               /\ steps' = steps + 1 /\ UNCHANGED <<case, done, cached>>
Read == /\ steps < 4 /\ steps' = steps + 1                                           \* rates() or probabilities()
        /\ cached' = IF needsUpdate THEN ver ELSE cached
        /\ needsUpdate' = FALSE /\ UNCHANGED <<case, done, ver>>
Next == Emitted \/ (\E x \in Params : SetParam(x)) \/ Read
Spec == Init /\ [][Next]_<<case, done, ver, cached, needsUpdate, steps>>

Valid == ProbsOK(case) /\ RatesOK(case) /\ InvariantOK(case) /\ MeanOK(case)
\* a value handed out (needsUpdate = FALSE) was computed from the current parameter versions
CacheCoherent == ~needsUpdate => cached = ver
=============================================================================
