----------------------------- MODULE Checkpoint -----------------------------
(***************************************************************************)
(* C17.  run / checkpoint / die / restart / continue for the iterative     *)
(* algorithms (optim/optimizer.py: Optimizer._run, inference/mcmc/mcmc.py: *)
(* MCMC.run) together with torchtree.main's restart path.                  *)
(*                                                                         *)
(* The run state is a vector of components (parameters, optimiser moments, *)
(* step counts, scheduler, operator tuning values and counters, adaptor    *)
(* state, mass matrix ...).  Each update is a deterministic function of    *)
(* the whole vector; abstractly component c holds "the number of updates   *)
(* it has been through", and a component that does not survive the JSON    *)
(* channel (Lossy) comes back as a freshly constructed one (0).            *)
(*                                                                         *)
(* The loop:   while label <= Iterations: update; [log]; if label % Freq = *)
(* 0: write checkpoint (label, components); label := label + 1             *)
(* Restart:    components := Decode(checkpoint), label := checkpoint label *)
(*             (+1 when ResumeAfterSaved), then the same loop.             *)
(***************************************************************************)
EXTENDS Naturals, FiniteSets, TLC

CONSTANTS Iterations, Freq,
          Comps,              \* component names
          Lossy,              \* components that do not survive save + restart (measured on the real code)
          ResumeAfterSaved,   \* TRUE: a restarted loop continues with the iteration after the checkpointed one
          MaxDeaths

VARIABLES pc,        \* "loop" | "update" | "ckpt" | "incr" | "dead" | "done"
          label,     \* the loop counter (_epoch)
          upd,       \* number of updates applied to the parameters since the start of the whole run
          comp,      \* [Comps -> Nat]
          ckpt,      \* last checkpoint: [label, upd, comp] or the empty record marker
          deaths,
          restored   \* TRUE in the state right after a restart (for RestoreIdentity)

vars == <<pc, label, upd, comp, ckpt, deaths, restored>>
None == [label |-> 0, upd |-> 0, comp |-> [c \in Comps |-> 0]]

Init == /\ pc = "loop" /\ label = 1 /\ upd = 0
        /\ comp = [c \in Comps |-> 0] /\ ckpt = None /\ deaths = 0 /\ restored = FALSE

LoopHead == /\ pc = "loop"
            /\ pc' = IF label <= Iterations THEN "update" ELSE "done"
            /\ restored' = FALSE
            /\ UNCHANGED <<label, upd, comp, ckpt, deaths>>

Update == /\ pc = "update"
          /\ upd' = upd + 1
          /\ comp' = [c \in Comps |-> comp[c] + 1]
          /\ pc' = "ckpt"
          /\ UNCHANGED <<label, ckpt, deaths, restored>>

WriteCheckpoint == /\ pc = "ckpt"
                   /\ ckpt' = IF label % Freq = 0 THEN [label |-> label, upd |-> upd, comp |-> comp] ELSE ckpt
                   /\ pc' = "incr"
                   /\ UNCHANGED <<label, upd, comp, deaths, restored>>

Increment == /\ pc = "incr" /\ label' = label + 1 /\ pc' = "loop"
             /\ UNCHANGED <<upd, comp, ckpt, deaths, restored>>

\* the process stops (killed, or the user interrupts) anywhere
Die == /\ pc \notin {"dead", "done"} /\ deaths < MaxDeaths /\ ckpt # None
       /\ pc' = "dead" /\ deaths' = deaths + 1
       /\ UNCHANGED <<label, upd, comp, ckpt, restored>>

Restart == /\ pc = "dead"
           /\ comp' = [c \in Comps |-> IF c \in Lossy THEN 0 ELSE ckpt.comp[c]]
           /\ upd' = ckpt.upd
           /\ label' = IF ResumeAfterSaved THEN ckpt.label + 1 ELSE ckpt.label
           /\ restored' = TRUE
           /\ pc' = "loop"
           /\ UNCHANGED <<ckpt, deaths>>

Next == LoopHead \/ Update \/ WriteCheckpoint \/ Increment \/ Die \/ Restart
Spec == Init /\ [][Next]_vars

---------------------------------------------------------------------------
\* everything the run needs is identical after writing a checkpoint and restarting from it
RestoreIdentity == restored => comp = ckpt.comp

\* the resumed run is the uninterrupted run: a component has seen exactly the updates applied
ResumedIsUninterrupted == \A c \in Comps : comp[c] = upd

\* loop bookkeeping: at the loop head, label k means k-1 updates have been applied
CounterBookkeeping == pc = "loop" => upd = label - 1

\* a finished run has applied exactly Iterations updates
FinishedExact == pc = "done" => upd = Iterations

ProbeRestart == ~restored
ProbeDone == pc # "done"
=============================================================================
