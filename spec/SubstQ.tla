------------------------------- MODULE SubstQ -------------------------------
(***************************************************************************)
(* C04.  Rate matrices of the shipped substitution models, declaratively   *)
(* and over exact rationals: Q[i][j] = r(i,j) * pi[j] for i # j, diagonal  *)
(* = minus the row sum, normalised by -sum_i pi[i] Q[i][i].  The           *)
(* exchangeability r(i,j) is what distinguishes the models:                *)
(*   JC69 / GeneralJC69  r = 1, uniform frequencies                         *)
(*   HKY                 kappa on A<->G and C<->T (state order A,C,G,T)     *)
(*   GTR                 rates a..f in row-major order of the upper triangle*)
(*   general symmetric   rates[mapping[k]] for the k-th upper-triangle cell *)
(*   general non-symm.   first half of the mapping: upper triangle,         *)
(*                       second half: lower triangle (cell (j,i), i<j)      *)
(*   empirical (LG/WAG)  exchangeabilities in row-major upper-triangle order*)
(* TLC checks on a lattice of parameters: rows sum to zero, off-diagonals  *)
(* are non-negative, one expected substitution per unit time, detailed     *)
(* balance and stationarity for the reversible models; every case is       *)
(* emitted with its exact normalised matrix for the conformance harness.   *)
(***************************************************************************)
EXTENDS Rat, FiniteSets, TLC, Json

CONSTANTS Cases,   \* set of records [model, n, pi, rates, mapping] (sequences are 1-based, states 1..n)
          Emit

VARIABLES case, done

States(c) == 1..c.n

\* index (1-based) of cell (i,j), i<j, in row-major order of the upper triangle of an n x n matrix
UpIdx(n, i, j) == (i - 1) * n - ((i - 1) * i) \div 2 + (j - i)

Exch(c, i, j) ==
    LET a == IF i < j THEN i ELSE j
        b == IF i < j THEN j ELSE i
        k == UpIdx(c.n, a, b)
        half == (c.n * (c.n - 1)) \div 2
    IN  CASE c.model \in {"JC69", "GENJC"} -> ROne
          [] c.model = "HKY" -> IF <<a, b>> \in {<<1, 3>>, <<2, 4>>} THEN c.rates[1] ELSE ROne
          [] c.model \in {"GTR", "EMPIRICAL"} -> c.rates[k]
          [] c.model = "GENSYM" -> c.rates[c.mapping[k] + 1]
          [] c.model = "GENNONSYM" -> IF i < j THEN c.rates[c.mapping[k] + 1] ELSE c.rates[c.mapping[half + k] + 1]

OffDiag(c, i, j) == RMul(Exch(c, i, j), c.pi[j])
RowOff(c, i) == RSumSeq([k \in 1..(c.n - 1) |-> LET j == IF k < i THEN k ELSE k + 1 IN OffDiag(c, i, j)])
QRaw(c) == [i \in States(c) |-> [j \in States(c) |-> IF i = j THEN RNeg(RowOff(c, i)) ELSE OffDiag(c, i, j)]]
Norm(c, Q) == RNeg(RSumSeq([i \in States(c) |-> RMul(c.pi[i], Q[i][i])]))
QNorm(c) == LET Q == QRaw(c) nrm == Norm(c, Q)
            IN  [i \in States(c) |-> [j \in States(c) |-> RDiv(Q[i][j], nrm)]]

Reversible(c) == c.model # "GENNONSYM"

RowsSumToZero(c, Q) == \A i \in States(c) : RIsZero(RSumSeq(Q[i]))
OffDiagNonNeg(c, Q) == \A i, j \in States(c) : i # j => RLe(RZero, Q[i][j])
UnitRate(c, Q) == Norm(c, Q) = ROne
DetailedBalance(c, Q) == \A i, j \in States(c) : RMul(c.pi[i], Q[i][j]) = RMul(c.pi[j], Q[j][i])
Stationary(c, Q) == \A j \in States(c) : RIsZero(RSumSeq([i \in States(c) |-> RMul(c.pi[i], Q[i][j])]))
FreqsAreSimplex(c) == RSumSeq(c.pi) = ROne /\ \A i \in States(c) : RLt(RZero, c.pi[i])

Init == case \in Cases /\ done = FALSE
Check == /\ ~done /\ done' = TRUE /\ UNCHANGED case
         /\ (Emit => PrintT(<<"CASE", ToJson([case |-> case, q |-> QNorm(case)])>>))
Spec == Init /\ [][Check]_<<case, done>>

Valid == LET Q == QNorm(case) IN
         /\ FreqsAreSimplex(case)
         /\ RowsSumToZero(case, Q) /\ OffDiagNonNeg(case, Q) /\ UnitRate(case, Q)
         /\ (Reversible(case) => DetailedBalance(case, Q) /\ Stationary(case, Q))
=============================================================================
