-------------------------------- MODULE BDSK --------------------------------
(***************************************************************************)
(* C09.  Event bookkeeping of the birth-death skyline density              *)
(* (evolution/bdsk.py: PiecewiseConstantBirthDeath.log_prob) and the       *)
(* refinement of epochs.  Times are integers measured forward from the     *)
(* origin (the code's x = origin - height, y = origin - tip height);       *)
(* epoch i (0-based) is T[i] <= t < T[i+1], T[0] = 0, T[m] = origin.       *)
(*   EpochOfCode(t)   searchsorted(times, t, right=True) - 1, clamped      *)
(*   CrossCode(i)     sum(x < T[i]) - sum(y <= T[i]) + 1   (lineages       *)
(*                    through boundary i), SampledAtCode(i) = #(y = T[i])  *)
(* against the definitions (epoch containing t; lineages alive just after  *)
(* the boundary; tips sampled exactly on it).                              *)
(* Split(i, s): boundary s inserted strictly inside epoch i, not on a      *)
(* sampling time, both halves carrying epoch i's rates.  Invariants: every *)
(* event keeps its rates, the counts at the old boundaries are unchanged,  *)
(* the count at the new boundary is the number of lineages alive there.    *)
(* The emitted (layout, split) pairs are metamorphic tests for the code.   *)
(***************************************************************************)
EXTENDS Integers, Sequences, FiniteSets, TLC, Json, SequencesExt

CONSTANTS Origin, NTips, BoundarySets, Emit, EmitMod
VARIABLES births, tips, T, split      \* split = <<>> or <<epoch index, new boundary>>

M == Len(T) - 1                        \* number of epochs
Epochs == 0..(M - 1)

\* the code
EpochOfCode(t) == LET k == Cardinality({i \in 1..Len(T) : T[i] <= t}) - 1 IN IF k > M - 1 THEN M - 1 ELSE k
CrossCode(i) == Cardinality({j \in DOMAIN births : births[j] < T[i + 1]}) - Cardinality({j \in DOMAIN tips : tips[j] <= T[i + 1]}) + 1
SampledAtCode(i) == Cardinality({j \in DOMAIN tips : tips[j] = T[i + 1]})
\* the definitions
EpochOfDef(t) == IF t >= Origin THEN M - 1 ELSE CHOOSE i \in Epochs : T[i + 1] <= t /\ t < T[i + 2]
Alive(t) == 1 + Cardinality({j \in DOMAIN births : births[j] < t}) - Cardinality({j \in DOMAIN tips : tips[j] <= t})

\* a sampled tree: k-th birth needs a lineage, every tip after the birth that creates it; total lineages never 0 before the last tip
ValidTree == /\ \A t \in 1..(Origin - 1) : Alive(t) >= 1 \/ \A j \in DOMAIN tips : tips[j] <= t
             /\ Cardinality(DOMAIN births) = NTips - 1
             /\ \A j \in DOMAIN births : births[j] > 0 /\ births[j] < Origin
             /\ \A t \in 0..Origin : Alive(t) >= 0
             /\ Alive(Origin) = 0

Init == /\ births \in [1..(NTips - 1) -> 1..(Origin - 1)] /\ tips \in [1..NTips -> 1..Origin]
        /\ \A j \in 1..(NTips - 2) : births[j] <= births[j + 1]
        /\ \A j \in 1..(NTips - 1) : tips[j] <= tips[j + 1]
        /\ T \in {<<0>> \o SetToSortSeq(b, <) \o <<Origin>> : b \in BoundarySets}
        /\ ValidTree
        /\ split = <<>>

Code == births[1] * 3 + tips[1] * 5 + tips[NTips] * 7 + Len(T) * 11
DoSplit == /\ split = <<>>
           /\ \E i \in Epochs, s \in 1..(Origin - 1) :
                  /\ T[i + 1] < s /\ s < T[i + 2]
                  /\ \A j \in DOMAIN tips : tips[j] # s
                  /\ split' = <<i, s>>
                  /\ (Emit /\ (Code + s) % EmitMod = 0 =>
                        PrintT(<<"CASE", ToJson([births |-> births, tips |-> tips, T |-> T, epoch |-> i, s |-> s, origin |-> Origin])>>))
           /\ UNCHANGED <<births, tips, T>>
Spec == Init /\ [][DoSplit]_<<births, tips, T, split>>

\* bookkeeping = definition, for every layout (also boundaries exactly on a sampling time)
Bookkeeping == /\ \A j \in DOMAIN births : EpochOfCode(births[j]) = EpochOfDef(births[j])
               /\ \A j \in DOMAIN tips : EpochOfCode(tips[j]) = EpochOfDef(tips[j])
               /\ \A i \in 1..(M - 1) : CrossCode(i) = Alive(T[i + 1])

\* refinement: with T2 the refined boundaries and old(e) the epoch a refined epoch came from
Refinement == split # <<>> =>
    LET i == split[1]  s == split[2]
        T2 == SubSeq(T, 1, i + 1) \o <<s>> \o SubSeq(T, i + 2, Len(T))
        old(e) == IF e <= i THEN e ELSE e - 1
        epoch2(t) == LET k == Cardinality({a \in 1..Len(T2) : T2[a] <= t}) - 1 IN IF k > M THEN M ELSE k
        cross2(b) == Cardinality({j \in DOMAIN births : births[j] < T2[b + 1]}) - Cardinality({j \in DOMAIN tips : tips[j] <= T2[b + 1]}) + 1
    IN  /\ \A j \in DOMAIN births : old(epoch2(births[j])) = EpochOfCode(births[j])
        /\ \A j \in DOMAIN tips : old(epoch2(tips[j])) = EpochOfCode(tips[j])
        /\ cross2(i + 1) = Alive(s)
        /\ \A b \in 1..M : b # i + 1 => cross2(b) = CrossCode(IF b <= i THEN b ELSE b - 1)
=============================================================================
