------------------------------ MODULE Pruning ------------------------------
(***************************************************************************)
(* C01.  Felsenstein pruning as coded in evolution/tree_likelihood.py      *)
(* (calculate_treelikelihood_discrete: one post-order triple per step,     *)
(* matrix index = child node index, categories as a leading axis, root     *)
(* frequencies and category proportions applied at the end) against the   *)
(* definition: the sum over every assignment of states to the internal     *)
(* nodes and every rate category of root frequency x branch transition     *)
(* entries x tip compatibility, an ambiguous tip counting as the union of  *)
(* the states it may stand for.                                            *)
(*                                                                         *)
(* Exact integer arithmetic: the "transition matrices" are fixed, pairwise *)
(* distinct, non-symmetric integer matrices Mat(branch, category, i, j),   *)
(* so that any slip in an index changes the exact value.  TLC enumerates   *)
(* every ordered labelled tree over the taxa (child order and leaf-index   *)
(* assignment both vary) and every choice of tip state sets.               *)
(***************************************************************************)
EXTENDS Trees, Integers, TLC, Json, FiniteSetsExt

CONSTANTS NTaxa,     \* number of tips
          NS,        \* number of states (states 0..NS-1)
          K,         \* number of rate categories
          TipSets,   \* the sets of states a tip may show (singletons, pairs, all)
          Emit,
          EmitMod   \* emit only every EmitMod-th tip configuration (1 = all)

VARIABLES tree, tips, lik

S == 0..(NS - 1)
Cats == 0..(K - 1)
Mat(b, k, i, j) == 1 + ((3 * i + 5 * j + 7 * b + 11 * k + i * j) % 5)
Freq(i) == i + 1
Prop(k) == k + 2

\* sum of f over a finite set (FiniteSetsExt)
SumOver(T, f(_)) == MapThenSumSet(f, T)

---------------------------------------------------------------------------
(* the code: partials[node][k][i], tips first *)
TipPartial(c) == [k \in Cats |-> [i \in S |-> IF i \in tips[c + 1] THEN 1 ELSE 0]]

RECURSIVE Prune(_, _, _)
Prune(post, idx, parts) ==
    IF idx > Len(post) THEN parts
    ELSE LET n == post[idx][1]  l == post[idx][2]  r == post[idx][3]
             side(c, k, i) == SumOver(S, LAMBDA j : Mat(c, k, i, j) * parts[c][k][j])      \* mats[c] @ partials[c]
         IN  Prune(post, idx + 1, (n :> [k \in Cats |-> [i \in S |-> side(l, k, i) * side(r, k, i)]]) @@ parts)

SiteLikelihood(t) ==
    LET post == Postorder(t)
        parts == Prune(post, 1, [c \in 0..(NTaxa - 1) |-> TipPartial(c)])
        root == post[Len(post)][1]
    IN  SumOver(S, LAMBDA i : Freq(i) * SumOver(Cats, LAMBDA k : Prop(k) * parts[root][k][i]))  \* freqs @ sum(props * partials[root])

---------------------------------------------------------------------------
(* the definition *)
Marginal(t) ==
    LET post == Postorder(t)
        root == post[Len(post)][1]
        internals == {post[i][1] : i \in 1..Len(post)}
        branch(k, a, p, c) == IF c < NTaxa THEN SumOver(tips[c + 1], LAMBDA j : Mat(c, k, a[p], j))
                              ELSE Mat(c, k, a[p], a[c])
        RECURSIVE prod(_, _, _)
        prod(k, a, i) == IF i > Len(post) THEN 1
                         ELSE branch(k, a, post[i][1], post[i][2]) * branch(k, a, post[i][1], post[i][3]) * prod(k, a, i + 1)
    IN  SumOver(Cats, LAMBDA k : SumOver(S, LAMBDA s :
            Prop(k) * Freq(s) * LET As == {a \in [internals -> S] : a[root] = s}
                                    RECURSIVE tot(_)
                                    tot(T) == IF T = {} THEN 0 ELSE LET a == CHOOSE x \in T : TRUE IN prod(k, a, 1) + tot(T \ {a})
                                IN  tot(As)))

---------------------------------------------------------------------------
\* a number identifying the tip configuration (for sub-sampling the emission)
TipCode == LET RECURSIVE code(_)
               code(i) == IF i > NTaxa THEN 0 ELSE Cardinality(tips[i]) * i * i + (CHOOSE x \in tips[i] : TRUE) * i + code(i + 1)
           IN  code(1)

Init == /\ tree \in TreesOver(0..(NTaxa - 1))
        /\ tips \in [1..NTaxa -> TipSets]
        /\ lik = -1
Compute == /\ lik = -1
           /\ lik' = SiteLikelihood(tree)
           /\ (Emit /\ TipCode % EmitMod = 0 => PrintT(<<"CASE", ToJson([tree |-> tree, tips |-> tips, lik |-> lik', post |-> Postorder(tree)])>>))
           /\ UNCHANGED <<tree, tips>>
Spec == Init /\ [][Compute]_<<tree, tips, lik>>

PruningIsMarginal == lik # -1 => lik = Marginal(tree)
=============================================================================
