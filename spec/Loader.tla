------------------------------- MODULE Loader -------------------------------
(***************************************************************************)
(* C13.  The JSON object language of torchtree: ids, references, nesting,  *)
(* comments and ignored objects.                                           *)
(*                                                                         *)
(* A document is a sequence of children; a child is                        *)
(*   <<"ref", id>>        a reference (a JSON string)                      *)
(*   <<"obj", node>>      an inline declaration, node = [id, ign, kids]    *)
(*   <<"com", child>>     something stored under a key starting with "_"   *)
(* id "?" stands for a missing `id' key.                                   *)
(*                                                                         *)
(* Req  : the requirement, stated declaratively over the document's token  *)
(*        stream (what the property says).                                 *)
(* Impl : a transcription of core/utils.py: remove_comments followed by    *)
(*        process_objects / process_object (registry threaded through,     *)
(*        duplicate check on entry, registration after construction, error *)
(*        propagation), which also produces the event sequence the real    *)
(*        loader is compared with.                                         *)
(* TLC checks Impl = Req for every document in the bound.                  *)
(***************************************************************************)
EXTENDS Naturals, Sequences, FiniteSets, TLC, Json

CONSTANTS Ids,          \* e.g. {"a","b","c"}
          Depth,        \* nesting depth of single-rooted documents
          Depth2,       \* nesting depth of the children of two-rooted documents
          WidthAt,      \* WidthAt[d] = maximal number of kids of a node of height d (1 or 2)
          Decorated,    \* TRUE: also missing ids, ignored objects, comment keys
          RecheckBeforeRegister,   \* TRUE: the id is re-checked just before registration (code as it is now)
          Emit          \* TRUE: print every case as JSON for the conformance harness

VARIABLES doc, result

---------------------------------------------------------------------------
(* The space of documents *)
IdSet == IF Decorated THEN Ids \cup {"?"} ELSE Ids
IgnSet == IF Decorated THEN BOOLEAN ELSE {FALSE}

SeqsUpTo(S, w) == {<<>>} \cup {<<x>> : x \in S}
                  \cup (IF w >= 2 THEN {<<x, y>> : x \in S, y \in S} ELSE {})

RECURSIVE Nodes(_), Children(_)
Nodes(d) == IF d = 0 THEN {}
            ELSE [id : IdSet, ign : IgnSet, kids : SeqsUpTo(Children(d - 1), WidthAt[d])]
Children(d) == LET base == {<<"ref", i>> : i \in Ids} \cup {<<"obj", n>> : n \in Nodes(d)}
               IN  IF Decorated /\ d > 0 THEN base \cup {<<"com", c>> : c \in base} ELSE base

\* comments cannot be list elements at the top level (they are dictionary keys)
TopOK(c) == c[1] # "com"
Docs == {<<c>> : c \in {x \in Children(Depth) : TopOK(x)}}
        \cup {<<c1, c2>> : c1 \in {x \in Children(Depth2) : TopOK(x)}, c2 \in {x \in Children(Depth2) : TopOK(x)}}

---------------------------------------------------------------------------
(* remove_comments: drop "_" keys and objects marked ignore *)
RECURSIVE Clean(_)
CleanKids(ks) == LET keep == SelectSeq(ks, LAMBDA c : c[1] # "com" /\ ~(c[1] = "obj" /\ c[2].ign))
                 IN  [i \in 1..Len(keep) |-> Clean(keep[i])]
Clean(c) == IF c[1] = "obj" THEN <<"obj", [id |-> c[2].id, ign |-> FALSE, kids |-> CleanKids(c[2].kids)]>>
            ELSE c

---------------------------------------------------------------------------
(* Token stream of a clean document, in document order *)
RECURSIVE Tokens(_, _)
TokensOfSeq(ks, path) ==
    LET F[i \in 0..Len(ks)] == IF i = 0 THEN <<>> ELSE F[i - 1] \o Tokens(ks[i], Append(path, i))
    IN  F[Len(ks)]
Tokens(c, path) ==
    IF c[1] = "ref" THEN << [k |-> "ref", id |-> c[2], path |-> path] >>
    ELSE << [k |-> "open", id |-> c[2].id, path |-> path] >>
         \o TokensOfSeq(c[2].kids, path)
         \o << [k |-> "close", id |-> c[2].id, path |-> path] >>

(* The requirement *)
Req(d) ==
    LET toks == TokensOfSeq(CleanKids(d), <<>>)
        N == Len(toks)
        opens == {i \in 1..N : toks[i].k = "open"}
        refs == {i \in 1..N : toks[i].k = "ref"}
        dup == \E i, j \in opens : i # j /\ toks[i].id = toks[j].id
        noid == \E i \in opens : toks[i].id = "?"
        defined(r) == \E j \in 1..N : j < r /\ toks[j].k = "close" /\ toks[j].id = toks[r].id
        dangling == \E r \in refs : ~defined(r)
        target(r) == toks[CHOOSE j \in opens : toks[j].id = toks[r].id].path
    IN  IF dup \/ noid \/ dangling THEN [accept |-> FALSE, registry |-> <<>>, res |-> {}]
        ELSE [accept |-> TRUE,
              registry |-> [i \in {toks[j].id : j \in opens} |-> toks[CHOOSE j \in opens : toks[j].id = i].path],
              res |-> {<<toks[r].path, target(r)>> : r \in refs}]

---------------------------------------------------------------------------
(* The implementation: process_object with the registry `dic' threaded through *)
St0 == [dic |-> <<>>, res |-> {}, err |-> "", ev |-> <<>>]

RECURSIVE Proc(_, _, _)
ProcSeq(ks, path, st) ==      \* process_objects on a list: left to right; an exception stops everything
    LET F[i \in 0..Len(ks)] == IF i = 0 THEN st
                               ELSE IF F[i - 1].err # "" THEN F[i - 1]
                               ELSE Proc(ks[i], Append(path, i), F[i - 1])
    IN  F[Len(ks)]

Ev(st, e) == [st EXCEPT !.ev = Append(@, e)]
Fail(st, kind, e) == [Ev(st, e) EXCEPT !.err = kind]

Proc(c, path, st) ==
    IF c[1] = "ref" THEN
        IF c[2] \in DOMAIN st.dic
        THEN [Ev(st, <<"ref", c[2], "ok">>) EXCEPT !.res = @ \cup {<<path, st.dic[c[2]]>>}]
        ELSE Fail(st, "notfound", <<"ref", c[2], "notfound">>)
    ELSE
        LET n == c[2] IN
        IF n.id = "?" THEN Fail(st, "missing_id", <<"obj", "?", "missing_id">>)
        ELSE IF n.id \in DOMAIN st.dic THEN Fail(st, "duplicate", <<"obj", n.id, "duplicate">>)
        ELSE LET inner == ProcSeq(n.kids, path, Ev(st, <<"enter", n.id>>)) IN
             IF inner.err # "" THEN Ev(inner, <<"exit", n.id, "error">>)     \* from_json_safe re-raises
             ELSE IF RecheckBeforeRegister /\ n.id \in DOMAIN inner.dic
                  THEN Fail(inner, "duplicate", <<"exit", n.id, "duplicate">>)
             ELSE [Ev(inner, <<"exit", n.id, "ok">>) EXCEPT !.dic = (n.id :> path) @@ @]

Impl(d) == ProcSeq(CleanKids(d), <<>>, St0)

---------------------------------------------------------------------------
Pending == [accept |-> FALSE, registry |-> <<>>, res |-> {}, err |-> "pending"]
Init == doc \in Docs /\ result = Pending
Run  == /\ result.err = "pending"
        /\ LET r == Impl(doc) q == Req(doc) IN
           /\ result' = [accept |-> r.err = "", registry |-> r.dic, res |-> r.res, err |-> r.err]
           /\ (Emit => PrintT(<<"CASE", ToJson([doc |-> doc, ev |-> r.ev, err |-> r.err,
                                                accept |-> q.accept, registry |-> q.registry,
                                                res |-> q.res])>>))
        /\ UNCHANGED doc
Next == Run
Spec == Init /\ [][Next]_<<doc, result>>

(* Impl refines Req *)
ImplMeetsReq ==
    result.err # "pending" =>
        LET q == Req(doc) IN
        /\ result.accept = q.accept
        /\ q.accept => (result.registry = q.registry /\ result.res = q.res)

(* reachability probes: expected to be violated *)
ProbeAcceptWithRefs == ~(result.err # "pending" /\ result.accept /\ result.res # {})
ProbeDuplicate == ~(result.err # "pending" /\ result.err = "duplicate")
ProbeNotFound == ~(result.err # "pending" /\ result.err = "notfound")
=============================================================================
