-------------------------------- MODULE Gmrf --------------------------------
(***************************************************************************)
(* C20.  The Gaussian Markov random field prior of distributions/gmrf.py:  *)
(* the first-difference form used by the density                           *)
(*        S(x) = sum_i (x[i+1] - x[i])^2 / w[i]                            *)
(* against the quadratic form x' Q x of the tridiagonal precision matrix   *)
(* (unit precision; the real one is tau * Q):                              *)
(*        Q[i][i+1] = Q[i+1][i] = -1/w[i],   Q[i][i] = 1/w[i-1] + 1/w[i]   *)
(* with w = 1 (plain), user weights, or time-aware weights                 *)
(*        w[i] = (d[i] + d[i+1]) / 2 / rescale,  d = durations between the *)
(*        sorted internal node heights (with 0 prepended), rescale = root  *)
(*        height or 1                                                      *)
(* exact rationals on an integer lattice.  The log density is              *)
(*   (n-1)/2 log tau - tau/2 S - (n-1)/2 log 2pi  (a term for the harness).*)
(***************************************************************************)
EXTENDS Rat, TLC, Json

CONSTANTS Dims, FieldVals, WeightVals, Emit, EmitMod
VARIABLES x, w, done

N == Len(x)
Sq(a) == RMul(a, a)
DiffForm == RSumSeq([i \in 1..(N - 1) |-> RDiv(Sq(RInt(x[i + 1] - x[i])), w[i])])
Q(i, j) == IF i = j THEN RAdd(IF i > 1 THEN RDiv(ROne, w[i - 1]) ELSE RZero, IF i < N THEN RDiv(ROne, w[i]) ELSE RZero)
           ELSE IF j = i + 1 THEN RNeg(RDiv(ROne, w[i]))
           ELSE IF i = j + 1 THEN RNeg(RDiv(ROne, w[j]))
           ELSE RZero
QuadForm == RSumSeq([i \in 1..N |-> RSumSeq([j \in 1..N |-> RMul(RInt(x[i] * x[j]), Q(i, j))])])

Init == /\ \E n \in Dims : x \in [1..n -> FieldVals] /\ w \in [1..(n - 1) -> WeightVals]
        /\ done = FALSE
Code == x[1] * 3 + x[N] * 5 + N * 7 + w[1][1] * 11 + 100
Step == /\ ~done /\ done' = TRUE /\ UNCHANGED <<x, w>>
        /\ (Emit /\ Code % EmitMod = 0 => PrintT(<<"CASE", ToJson([x |-> x, w |-> w, s |-> DiffForm,
                                                                    q |-> [i \in 1..N |-> [j \in 1..N |-> Q(i, j)]]])>>))
Spec == Init /\ [][Step]_<<x, w, done>>

FormsAgree == DiffForm = QuadForm
RowsSumToZero == \A i \in 1..N : RIsZero(RSumSeq([j \in 1..N |-> Q(i, j)]))      \* improper prior: constants are free
=============================================================================
