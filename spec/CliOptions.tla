------------------------------ MODULE CliOptions ------------------------------
(***************************************************************************)
(* C19, the option space.  Options and their explored values (Domain),     *)
(* the pairs of values outside the explored space (Excl: e.g. a tree prior *)
(* without a clock, an amino-acid model on a nucleotide alignment), the    *)
(* pairs torchtree-cli must refuse (Reject: argparse choices and           *)
(* check_arguments - skyride with a grid, a grid coalescent without one),  *)
(* and a candidate test suite Tests built by the harness.                  *)
(*                                                                         *)
(* TLC checks the suite instead of trusting its generator:                 *)
(*   WellFormed        every test assigns every option a value of its      *)
(*                     domain and contains no excluded pair                *)
(*   PairwiseComplete  every pair of values of two different options that  *)
(*                     is neither excluded, refused nor listed as          *)
(*                     infeasible occurs in some ACCEPTED test             *)
(*   RejectCovered     every refused pair occurs in some test              *)
(*   CoreComplete      every assignment of the model-defining options      *)
(*                     (Core) that contains no excluded pair occurs        *)
(* and emits, per test, whether the CLI must accept it.                    *)
(***************************************************************************)
EXTENDS Naturals, Sequences, FiniteSets, TLC

CONSTANTS Options,      \* set of option names
          Domain,       \* [Options -> set of values]
          Excl,         \* set of <<o1, v1, o2, v2>>
          Reject,       \* set of <<o1, v1, o2, v2>>
          Infeasible,   \* pairs the generator could not place (reported, must be empty for a complete suite)
          Core,         \* subset of Options enumerated fully (may be empty)
          CoreSpace,    \* all assignments of the Core options (records over Core), supplied as a product
          Tests,        \* sequence of [Options -> value]
          Emit

VARIABLES t, done
vars == <<t, done>>

Has(test, q) == test[q[1]] = q[2] /\ test[q[3]] = q[4]
Excluded(test) == \E q \in Excl : Has(test, q)
Accepted(test) == ~\E q \in Reject : Has(test, q)

\* (every operator takes the suite as an argument: TLC re-evaluates the constant expression Tests at each textual
\*  occurrence, which made the check quadratic in the number of tests)
WellFormed(T) == \A i \in DOMAIN T : /\ DOMAIN T[i] = Options
                                     /\ \A o \in Options : T[i][o] \in Domain[o]
                                     /\ ~Excluded(T[i])
PairExcluded(o1, v1, o2, v2) == <<o1, v1, o2, v2>> \in Excl \/ <<o2, v2, o1, v1>> \in Excl
PairInfeasible(o1, v1, o2, v2) == <<o1, v1, o2, v2>> \in Infeasible \/ <<o2, v2, o1, v1>> \in Infeasible
AcceptedTests(T) == {i \in DOMAIN T : Accepted(T[i])}
CoveredPairs(T) == UNION {{<<o1, T[i][o1], o2, T[i][o2]>> : o1 \in Options, o2 \in Options} : i \in AcceptedTests(T)}
PairwiseComplete(T) ==
    LET cov == CoveredPairs(T) IN
    \A o1, o2 \in Options : o1 # o2 =>
        \A v1 \in Domain[o1], v2 \in Domain[o2] :
            PairExcluded(o1, v1, o2, v2) \/ PairInfeasible(o1, v1, o2, v2)
            \/ <<o1, v1, o2, v2>> \in Reject \/ <<o2, v2, o1, v1>> \in Reject
            \/ <<o1, v1, o2, v2>> \in cov
RejectCovered(T) == \A q \in Reject : \E i \in DOMAIN T : Has(T[i], q)
CoreExcluded(f) == \E q \in Excl : q[1] \in Core /\ q[3] \in Core /\ f[q[1]] = q[2] /\ f[q[3]] = q[4]
CoreRejected(f) == \E q \in Reject : q[1] \in Core /\ q[3] \in Core /\ f[q[1]] = q[2] /\ f[q[3]] = q[4]
CoreProj(T) == {[o \in Core |-> T[i][o]] : i \in AcceptedTests(T)}
CoreSpaceOK == \A f \in CoreSpace : DOMAIN f = Core /\ \A o \in Core : f[o] \in Domain[o]
CoreComplete(T) == Core = {} \/ (CoreSpaceOK /\ LET proj == CoreProj(T) IN \A f \in CoreSpace : CoreExcluded(f) \/ CoreRejected(f) \/ f \in proj)

Suite(T) == WellFormed(T) /\ PairwiseComplete(T) /\ RejectCovered(T) /\ CoreComplete(T)

\* one step: judge the suite, say which tests the CLI must accept
Init == t = 0 /\ done = FALSE
Step == /\ t = 0 /\ t' = 1
        /\ LET T == Tests IN
           /\ done' = Suite(T)
           /\ (Emit => PrintT(<<"ACCEPT", [i \in DOMAIN T |-> Accepted(T[i])]>>))
Spec == Init /\ [][Step]_vars
SuiteOK == t = 1 => done
=============================================================================
