------------------------------ MODULE CliOptions ------------------------------
(***************************************************************************)
(* C19, the option space.  Options and their explored values (Domain),     *)
(* the pairs of values outside the explored space (Excl: e.g. a tree prior *)
(* without a clock, an amino-acid model on a nucleotide alignment), the    *)
(* pairs torchtree-cli must refuse (Reject: argparse choices and           *)
(* check_arguments - skyride with a grid, a grid coalescent without one),  *)
(* and a candidate test suite Tests built by the harness.                  *)
(*                                                                         *)
(* TLC checks the suite instead of trusting its generator:                 *)
(*   WellFormed        every test assigns every option a value of its      *)
(*                     domain and contains no excluded pair                *)
(*   PairwiseComplete  every pair of values of two different options that  *)
(*                     is neither excluded, refused nor listed as          *)
(*                     infeasible occurs in some ACCEPTED test             *)
(*   RejectCovered     every refused pair occurs in some test              *)
(*   CoreComplete      every assignment of the model-defining options      *)
(*                     (Core) that contains no excluded pair occurs        *)
(* and emits, per test, whether the CLI must accept it.                    *)
(***************************************************************************)
EXTENDS Naturals, Sequences, FiniteSets, TLC

CONSTANTS Options,      \* set of option names
          Domain,       \* [Options -> set of values]
          Excl,         \* set of <<o1, v1, o2, v2>>
          Reject,       \* set of <<o1, v1, o2, v2>>
          Infeasible,   \* pairs the generator could not place (reported, must be empty for a complete suite)
          Core,         \* subset of Options enumerated fully (may be empty)
          CoreSpace,    \* all assignments of the Core options (records over Core), supplied as a product
          Tests,        \* sequence of [Options -> value]
          Emit

VARIABLES t, done
vars == <<t, done>>

Has(test, q) == test[q[1]] = q[2] /\ test[q[3]] = q[4]
Excluded(test) == \E q \in Excl : Has(test, q)
Accepted(test) == ~\E q \in Reject : Has(test, q)

WellFormed == \A i \in DOMAIN Tests : /\ DOMAIN Tests[i] = Options
                                      /\ \A o \in Options : Tests[i][o] \in Domain[o]
                                      /\ ~Excluded(Tests[i])
PairExcluded(o1, v1, o2, v2) == <<o1, v1, o2, v2>> \in Excl \/ <<o2, v2, o1, v1>> \in Excl
PairInfeasible(o1, v1, o2, v2) == <<o1, v1, o2, v2>> \in Infeasible \/ <<o2, v2, o1, v1>> \in Infeasible
AcceptedTests == {i \in DOMAIN Tests : Accepted(Tests[i])}
CoveredPairs == UNION {{<<o1, Tests[i][o1], o2, Tests[i][o2]>> : o1 \in Options, o2 \in Options} : i \in AcceptedTests}
PairwiseComplete ==
    LET cov == CoveredPairs IN
    \A o1, o2 \in Options : o1 # o2 =>
        \A v1 \in Domain[o1], v2 \in Domain[o2] :
            PairExcluded(o1, v1, o2, v2) \/ PairInfeasible(o1, v1, o2, v2)
            \/ <<o1, v1, o2, v2>> \in Reject \/ <<o2, v2, o1, v1>> \in Reject
            \/ <<o1, v1, o2, v2>> \in cov
RejectCovered == \A q \in Reject : \E i \in DOMAIN Tests : Has(Tests[i], q)
CoreExcluded(f) == \E q \in Excl : q[1] \in Core /\ q[3] \in Core /\ f[q[1]] = q[2] /\ f[q[3]] = q[4]
CoreRejected(f) == \E q \in Reject : q[1] \in Core /\ q[3] \in Core /\ f[q[1]] = q[2] /\ f[q[3]] = q[4]
CoreProj == {[o \in Core |-> Tests[i][o]] : i \in AcceptedTests}
CoreSpaceOK == \A f \in CoreSpace : DOMAIN f = Core /\ \A o \in Core : f[o] \in Domain[o]
CoreComplete == Core = {} \/ (CoreSpaceOK /\ LET proj == CoreProj IN \A f \in CoreSpace : CoreExcluded(f) \/ CoreRejected(f) \/ f \in proj)

Init == t = 0 /\ done = FALSE
Step == /\ t < Len(Tests) /\ t' = t + 1 /\ UNCHANGED done
        /\ (Emit => PrintT(<<"TEST", t + 1, Accepted(Tests[t + 1])>>))
Spec == Init /\ [][Step]_vars
Suite == WellFormed /\ PairwiseComplete /\ RejectCovered /\ CoreComplete
SuiteAtStart == t = 0 => Suite      \* the suite is a constant: judged once
=============================================================================
