------------------------------ MODULE Coalescent ------------------------------
(***************************************************************************)
(* C08 / C20.  The event bookkeeping of the piecewise-constant coalescent  *)
(* densities of evolution/coalescent.py against the Kingman definition.    *)
(*                                                                         *)
(* Input: sampling times, coalescent times, grid points (integers).        *)
(* Definition: between consecutive distinct event times the number of      *)
(* lineages is k(t) = #samples <= t - #coalescences <= t; the density is   *)
(*     - sum_intervals C(k,2) * dt / N(piece)  -  sum_coal log N(t_c)      *)
(* with N constant on pieces: one piece (constant), a new piece after each *)
(* coalescent event (skyride), a new piece after each grid point (skygrid).*)
(* Population sizes are fixed to distinct powers of two, Theta(j) = 2^j,   *)
(* so that an off-by-one look-up changes the exact rational value.         *)
(*                                                                         *)
(* Algorithm (the code): all events are sorted by time - PickNext places   *)
(* any not-yet-placed event of minimal time, so the behaviours are exactly *)
(* the admissible orders of an unstable sort - then running sums of the    *)
(* marks +1 / -1 / 0 give the lineage count and the piece index, with the  *)
(* code's slicing ([..., :-1] for the integral, [..., 1:] for the logs).   *)
(* Result = <<integral as a rational, bag of piece indices of the log      *)
(* terms, per-piece sufficient statistics, per-piece coalescent counts>>.  *)
(***************************************************************************)
EXTENDS Rat, FiniteSets, TLC, Json, SequencesExt, FiniteSetsExt

CONSTANTS NTaxa, SampVals, CoalVals, GridSets,   \* the lattice of inputs
          Model,    \* "constant" | "skyride" | "skygrid"
          Emit

VARIABLES Samp,     \* sequence of sampling times
          Coal,     \* sequence of coalescent times
          Grid,     \* sequence of grid points (strictly increasing)
          placed,   \* sequence of placed events <<time, mark>>
          todo      \* set of event ids not yet placed

NS == Len(Samp)
NC == Len(Coal)
NG == Len(Grid)
Events == [i \in 1..(NS + NC + NG) |->
              IF i <= NS THEN <<Samp[i], 1>>
              ELSE IF i <= NS + NC THEN <<Coal[i - NS], -1>> ELSE <<Grid[i - NS - NC], 0>>]
Theta(j) == 2 ^ (j + 1)              \* piece j (0-based) has population size 2^(j+1)
Choose2(k) == (k * (k - 1)) \div 2

---------------------------------------------------------------------------
(* definition *)
Times == {Events[i][1] : i \in DOMAIN Events}
K(t) == Cardinality({i \in 1..NS : Samp[i] <= t}) - Cardinality({i \in 1..NC : Coal[i] <= t})
PieceAt(t) == CASE Model = "constant" -> 0
                [] Model = "skyride" -> Cardinality({i \in 1..NC : Coal[i] <= t})
                [] Model = "skygrid" -> Cardinality({i \in 1..NG : Grid[i] <= t})
NextTime(t) == CHOOSE u \in Times : u > t /\ \A w \in Times : w > t => u <= w
LastTime == CHOOSE u \in Times : \A w \in Times : w <= u
DefIntegral == RSumSeq([k \in 1..Cardinality(Times \ {LastTime}) |->
                          LET t == SetToSortSeq(Times \ {LastTime}, <)[k]
                          IN  R(Choose2(K(t)) * (NextTime(t) - t), Theta(PieceAt(t)))])
\* per-piece sufficient statistics sum C(k,2) dt and coalescent counts (skygrid: NG + 1 pieces)
NPieces == CASE Model = "constant" -> 1 [] Model = "skyride" -> NC [] Model = "skygrid" -> NG + 1
DefStats == [j \in 0..(NPieces - 1) |->
                MapThenSumSet(LAMBDA t : IF PieceAt(t) = j THEN Choose2(K(t)) * (NextTime(t) - t) ELSE 0, Times \ {LastTime})]
\* piece whose population size enters the log term of coalescent event i: the piece in force just
\* before the event.  For the skyride that is the number of earlier events in sorted order; at a grid
\* point that coincides with a coalescent time the definition is two-valued (either side).
CoalRank(i) == Cardinality({j \in 1..NC : Coal[j] < Coal[i] \/ (Coal[j] = Coal[i] /\ j < i)})
LogPieces(i) == CASE Model = "constant" -> {0}
                  [] Model = "skyride" -> {CoalRank(i)}
                  [] Model = "skygrid" -> {Cardinality({g \in 1..NG : Grid[g] < Coal[i]}), Cardinality({g \in 1..NG : Grid[g] <= Coal[i]})}

---------------------------------------------------------------------------
(* algorithm *)
\* a coalescence needs two lineages sampled strictly earlier; inputs are sorted to break symmetry
ValidInput == /\ \A i \in 1..(NTaxa - 1) : Samp[i] <= Samp[i + 1]
              /\ \A i \in 1..(NTaxa - 2) : Coal[i] <= Coal[i + 1]
              /\ \A i \in 1..(NTaxa - 1) : Cardinality({j \in 1..NTaxa : Samp[j] < Coal[i]}) >= i + 1
Init == /\ Samp \in [1..NTaxa -> SampVals] /\ Coal \in [1..(NTaxa - 1) -> CoalVals]
        /\ Grid \in {SetToSortSeq(g, <) : g \in GridSets}
        /\ ValidInput
        /\ placed = <<>> /\ todo = 1..(2 * NTaxa - 1 + Len(Grid))
PickNext == /\ todo # {}
            /\ \E i \in todo : /\ \A j \in todo : Events[i][1] <= Events[j][1]        \* argsort: any minimal one
                               /\ placed' = Append(placed, Events[i])
                               /\ todo' = todo \ {i}
                               /\ (Emit /\ todo' = {} => PrintT(<<"CASE", ToJson(
                                      [samp |-> Samp, coal |-> Coal, grid |-> Grid, model |-> Model, integral |-> DefIntegral,
                                       stats |-> [j \in 1..NPieces |-> DefStats[j - 1]]])>>))
            /\ UNCHANGED <<Samp, Coal, Grid>>
Spec == Init /\ [][PickNext]_<<Samp, Coal, Grid, placed, todo>>

M == Len(placed)
Mark(i) == placed[i][2]
TimeAt(i) == placed[i][1]
Cum(i) == LET RECURSIVE s(_) s(k) == IF k = 0 THEN 0 ELSE Mark(k) + s(k - 1) IN s(i)                       \* node_mask_sorted.cumsum(-1)
PieceCum(i) ==                                                                                             \* thetas_indices
    LET hit(k) == CASE Model = "constant" -> 0 [] Model = "skyride" -> IF Mark(k) = -1 THEN 1 ELSE 0
                    [] Model = "skygrid" -> IF Mark(k) = 0 THEN 1 ELSE 0
        RECURSIVE s(_) s(k) == IF k = 0 THEN 0 ELSE hit(k) + s(k - 1)
    IN  s(i)
\* integral: lchoose2[i] * durations[i] / thetas[i], i = 1..M-1, thetas gathered at thetas_indices[..., :-1]
AlgIntegral == RSumSeq([i \in 1..(M - 1) |-> R(Choose2(Cum(i)) * (TimeAt(i + 1) - TimeAt(i)), Theta(PieceCum(i)))])
\* log terms: skyride sums log of every theta (one per piece); skygrid: log thetas[PieceCum(i)] at coalescent marks, slice [..., 1:]
AlgLogBag == CASE Model = "constant" -> [j \in {0} |-> NC]
               [] Model = "skyride" -> [j \in 0..(NC - 1) |-> 1]
               [] Model = "skygrid" -> [j \in 0..NG |-> Cardinality({i \in 2..M : Mark(i) = -1 /\ PieceCum(i) = j})]
\* sufficient_statistics: tensor_split at the piece marks, coalescent counts per piece
AlgStats == [j \in 0..(NPieces - 1) |->
                MapThenSumSet(LAMBDA i : IF (IF Model = "skyride" THEN PieceCum(i) ELSE PieceCum(i)) = j
                                         THEN Choose2(Cum(i)) * (TimeAt(i + 1) - TimeAt(i)) ELSE 0, 1..(M - 1))]

Done == todo = {}
\* the algorithm's log bag must be one of the bags the definition allows
LogBagAllowed ==
    \E f \in [1..NC -> 0..(NPieces - 1)] :
        /\ \A i \in 1..NC : f[i] \in LogPieces(i)
        /\ \A j \in 0..(NPieces - 1) : AlgLogBag[j] = Cardinality({i \in 1..NC : f[i] = j})

Agree == Done => /\ AlgIntegral = DefIntegral
                 /\ LogBagAllowed
                 /\ AlgStats = DefStats
=============================================================================
