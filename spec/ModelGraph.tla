----------------------------- MODULE ModelGraph -----------------------------
(***************************************************************************)
(* C11 (and the sampling protocol of C14).  Cache invalidation in a        *)
(* torchtree model graph.                                                  *)
(*                                                                         *)
(* The graph (constants) is extracted from live torchtree objects by the   *)
(* harness: nodes, their boolean cache flags, listener lists, data-flow    *)
(* inputs, and - by probing each handler on each flag valuation - a        *)
(* handler table.  The spec gives the semantics:                           *)
(*   Update(op)  an update operation changes the values of some raw        *)
(*               parameters and calls fire_*_changed on its root nodes;    *)
(*               notification walks the listener lists depth first, each   *)
(*               visited listener applying its handler table entry         *)
(*               (flags set / cleared, whether it fires on, raises);       *)
(*   Eval(n)     evaluates every observable of n: cached quantities whose  *)
(*               flag is clean are returned as they are; for the dirty     *)
(*               ones the cached nodes read by n are evaluated first (each *)
(*               for the quantities n uses), then the flags are cleared.   *)
(* The generated MC module names one action per operation / evaluation       *)
(* (Op_k == Update(o), Ev_k == Eval(n)) so that the edges of the dumped    *)
(* state graph identify the action for replay.                             *)
(* Ghost state `stale[n]' records that n's cached value was computed from  *)
(* inputs that have changed since.  NoStale: an evaluation never returns a *)
(* stale value.  The state space is finite, so TLC's verdict covers every  *)
(* finite history of operations on the given graph.                        *)
(***************************************************************************)
EXTENDS Naturals, Sequences, FiniteSets, TLC, SequencesExt

CONSTANTS
    Nodes,      \* set of node names
    FlagsOf,    \* [Nodes -> SUBSET STRING]        cache flags of each node
    InitFlags,  \* [Nodes -> SUBSET STRING]        flags that are TRUE after construction
    Lst,        \* [Nodes -> Seq(Nodes)]           listener list, in notification order
    Inputs,     \* [Nodes -> Seq(Nodes)]           containment: nodes held by the node (data flow, for the ghost)
    Reads,      \* [Nodes -> Seq(<<node, flags>>)] cached nodes read when the node recomputes, each with the
                \*                                  flags (cached quantities) that the read refreshes (probed)
    Handler,    \* [<<listener, kind, source>> -> [SUBSET flags -> effect]]
                \*   effect = [set, clr : SUBSET flags, fire : Seq(kind), raise : BOOLEAN]
    Ops,        \* set of update operations (names)
    OpRoots,    \* [Ops -> Seq(<<node, kind>>)]    fire calls made by the operation itself
    OpChanges,  \* [Ops -> SUBSET Nodes]           raw parameters whose value changes
    OpHit,      \* [Ops -> SUBSET Nodes]           = Consumers(OpChanges[o]), precomputed (checked by ASSUME)
    OpReads,    \* [Ops -> Seq(Nodes)]             nodes the operation evaluates in full before updating
    SideOp,     \* [Nodes -> Ops \cup {""}]        update performed by the node itself whenever it recomputes
                \*                                  (a variational objective draws samples into the shared parameters)
    Evals       \* set of nodes whose observable is evaluated by Eval actions

VARIABLES flags,   \* [Nodes -> SUBSET STRING] : flags currently TRUE
          stale,   \* [Nodes -> SUBSET STRING] : ghost - flags whose cached quantity is out of date
          bad,     \* "" | "stale" | "raise"
          last     \* the last action (history only: hidden from the fingerprint by VIEW View)

vars == <<flags, stale, bad, last>>
View == <<flags, stale, bad>>

HasCache(n) == FlagsOf[n] # {}

(* transitive data-flow consumers of a set of raw parameters *)
RECURSIVE Reach(_, _)
Reach(S, k) == IF k = 0 THEN S
               ELSE LET T == S \cup {n \in Nodes : \E i \in 1..Len(Inputs[n]) : Inputs[n][i] \in S}
                    IN  IF T = S THEN S ELSE Reach(T, k - 1)
Consumers(S) == Reach(S, Cardinality(Nodes)) \ S
ASSUME \A o \in Ops : OpHit[o] = Consumers(OpChanges[o])

---------------------------------------------------------------------------
(* Notification: depth-first walk over listener lists.  State threaded: <<flags, raised>> *)
(* (folds are written with FoldLeft and LET-bound accumulators: TLC re-evaluates every      *)
(*  textual occurrence of a recursive-function application)                                 *)
RECURSIVE Fire(_, _, _)
Visit(src, kind, acc, l) ==
    IF acc[2] THEN acc
    ELSE LET key == <<l, kind, src>> IN
         IF key \notin DOMAIN Handler THEN acc          \* listener without an entry: ignores
         ELSE LET h == Handler[key][acc[1][l]]
                  fl1 == [acc[1] EXCEPT ![l] = (@ \cup h.set) \ h.clr]
              IN  IF h.raise THEN <<fl1, TRUE>>
                  ELSE FoldLeft(LAMBDA a, k : IF a[2] THEN a ELSE Fire(l, k, a), <<fl1, FALSE>>, h.fire)
Fire(n, kind, st) == FoldLeft(LAMBDA acc, l : Visit(n, kind, acc, l), st, Lst[n])

(* Effect of an update operation on <<flags, stale>> (raise is reported by Update only) *)
ApplyOp(o, fl, st) ==
    LET w == FoldLeft(LAMBDA a, r : IF a[2] THEN a ELSE Fire(r[1], r[2], a), <<fl, FALSE>>, OpRoots[o])
    IN  <<w[1], [n \in Nodes |-> IF n \in OpHit[o] THEN FlagsOf[n] ELSE st[n]], w[2]>>

(* Evaluation of the cached quantities C of node n.                                         *)
(* Threaded: <<flags, stale, some returned value was stale>>                                *)
RECURSIVE Ev(_, _, _)
Ev(n, C, acc) ==
    LET dirtyC == acc[1][n] \cap C
        cleanC == C \ acc[1][n]
        retStale == acc[2][n] \cap cleanC # {}
    IN  IF FlagsOf[n] = {} \/ dirtyC # {} THEN
            LET s0 == IF SideOp[n] = "" THEN <<acc[1], acc[2]>>
                      ELSE LET u == ApplyOp(SideOp[n], acc[1], acc[2]) IN <<u[1], u[2]>>
                r == FoldLeft(LAMBDA a, rd : LET q == Ev(rd[1], rd[2], <<a[1], a[2], FALSE>>)
                                             IN <<q[1], q[2], a[3] \/ q[3]>>,
                              <<s0[1], s0[2], FALSE>>, Reads[n])
                dn == dirtyC \cup (IF SideOp[n] = "" THEN {} ELSE r[1][n] \cap C)
            IN  <<[r[1] EXCEPT ![n] = @ \ dn],
                  [r[2] EXCEPT ![n] = (@ \ dn) \cup (IF r[3] THEN dn ELSE {})],
                  r[3] \/ retStale>>
        ELSE <<acc[1], acc[2], retStale>>

---------------------------------------------------------------------------
Init == /\ flags = InitFlags                          \* as left by the constructors
        /\ stale = [n \in Nodes |-> {}]
        /\ bad = ""
        /\ last = <<"init", "">>

Update(o) ==
    /\ bad = ""
    /\ LET pre == FoldLeft(LAMBDA a, n : Ev(n, FlagsOf[n], a), <<flags, stale, FALSE>>, OpReads[o])
           w == ApplyOp(o, pre[1], pre[2])
       IN  /\ flags' = w[1]
           /\ stale' = w[2]
           /\ bad' = IF w[3] THEN "raise" ELSE ""
    /\ last' = <<"op", o>>

Eval(n) ==
    /\ bad = ""
    /\ LET r == Ev(n, FlagsOf[n], <<flags, stale, FALSE>>)
       IN  /\ flags' = r[1]
           /\ stale' = r[2]
           /\ bad' = IF r[3] THEN "stale" ELSE ""
    /\ last' = <<"eval", n>>

Next == (\E o \in Ops : Update(o)) \/ (\E n \in Evals : Eval(n))
Spec == Init /\ [][Next]_vars

---------------------------------------------------------------------------
NoStale == bad # "stale"
NeverRaises == bad # "raise"

\* vacuity probe (expected to be violated)
ProbeSomeClean == \A n \in Nodes : HasCache(n) => flags[n] # {}
=============================================================================
