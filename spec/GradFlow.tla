------------------------------ MODULE GradFlow ------------------------------
(***************************************************************************)
(* C12 (structural part).  Gradient flow against data flow.                *)
(*                                                                         *)
(* The object graph of a loaded configuration (the same extraction as      *)
(* ModelGraph.tla, C11): Inputs[n] = the nodes n reads when it recomputes. *)
(* A density can only depend on the raw parameters it reaches along Inputs *)
(* edges.  Measured on the real objects, per density d:                    *)
(*   NumInfl[d]   raw parameters with a non-zero numerical derivative of   *)
(*                d's value at some explored point,                        *)
(*   GradInfl[d]  raw parameters that received a non-zero gradient from    *)
(*                d().backward() at the same points.                       *)
(* The spec walks the graph (one node per step, so the closure is a        *)
(* reachability computation TLC performs and checks, not one done in the   *)
(* harness) and requires                                                   *)
(*   Sound      NumInfl[d] \subseteq Reach(d)   (else the extracted graph  *)
(*              misses an edge: a binding failure, not a verdict)          *)
(*   NoMissing  NumInfl[d] \subseteq GradInfl[d]   (the property: nothing  *)
(*              that influences the value is left without gradient)        *)
(*   NoPhantom  GradInfl[d] \subseteq Reach(d)                             *)
(* The numerical equality gradient = derivative itself is not a TLA+       *)
(* matter; it is decided by the harness (see harness/c12.py).              *)
(***************************************************************************)
EXTENDS FiniteSets, TLC

CONSTANTS Nodes, Inputs, Raw, Dens, NumInfl, GradInfl

VARIABLES d, seen, frontier
vars == <<d, seen, frontier>>

Init == /\ d \in Dens /\ seen = {d} /\ frontier = {d}
Visit == /\ frontier # {}
         /\ LET n == CHOOSE m \in frontier : TRUE IN
               LET new == Inputs[n] \ seen IN
               /\ seen' = seen \cup new
               /\ frontier' = (frontier \ {n}) \cup new
         /\ UNCHANGED d
Spec == Init /\ [][Visit]_vars

Done == frontier = {}
Sound == Done => NumInfl[d] \subseteq (seen \cap Raw)
NoPhantom == Done => GradInfl[d] \subseteq (seen \cap Raw)
NoMissing == NumInfl[d] \subseteq GradInfl[d]
\* the walk never leaves the node set
TypeOK == seen \subseteq Nodes /\ frontier \subseteq seen
=============================================================================
