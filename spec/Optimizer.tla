------------------------------ MODULE Optimizer ------------------------------
(***************************************************************************)
(* Growth of the specification beyond the listed properties (it serves     *)
(* C17, C14 and C11): the stochastic-gradient loop of optim/optimizer.py,  *)
(* Optimizer._run, one action per statement group of the code:             *)
(*                                                                         *)
(*   Start      loggers initialised; optional convergence check at 0       *)
(*              followed by a notification of every parameter; gradients   *)
(*              switched on (which notifies once more)                     *)
(*   Trial      loss evaluated, zero_grad, backward; the environment       *)
(*              decides whether the gradient is finite                     *)
(*   Retry      non-finite gradient and trials left: notify, try again     *)
(*   Step       optimizer.step(): parameters change IN PLACE, silently     *)
(*   Notify     every parameter fires its change event                     *)
(*   Sched      scheduler.step()                                           *)
(*   Conv       convergence.check(epoch) evaluates the loss with its own   *)
(*              sample count; may stop the run; notifies again             *)
(*   Advance    the iteration counter is advanced ...                      *)
(*   Ckpt       ... BEFORE the checkpoint is written (every Freq updates)  *)
(*   Finish     loggers closed                                             *)
(*                                                                         *)
(* Properties:                                                             *)
(*   EvalSeesNotified   no evaluation (loss, convergence) happens while a  *)
(*                      silent in-place update is pending (C11, C14)       *)
(*   CkptResumable      a checkpoint written after u updates stores the    *)
(*                      iteration u + 1: a resumed run performs exactly    *)
(*                      the remaining N - u updates (C17)                  *)
(*   Bounded            at most N updates; exactly N when nothing stops it *)
(*   NoBlindStep        a step is taken only on a finite gradient          *)
(* NoBlindStep does NOT hold for the code: after ten non-finite trials the *)
(* loop falls through to optimizer.step().  The deviation is a named       *)
(* disjunct (BlindStep) so that the conforming spec accepts the code's     *)
(* traces; the invariant is checked in a separate configuration and its    *)
(* counterexample is confirmed on the real class (see harness/optloop.py). *)
(***************************************************************************)
EXTENDS Naturals, Sequences, TLC

CONSTANTS N,            \* iterations
          Trials,       \* 10 in the code
          Freq,         \* checkpoint_frequency
          WithConv, WithSched, WithCkpt

VARIABLES pc, epoch, trial, silent, updates, gradok, ckpts, stopped, blind, log
vars == <<pc, epoch, trial, silent, updates, gradok, ckpts, stopped, blind, log>>

Ev(e) == log' = Append(log, e)

Init == /\ pc = "start" /\ epoch = 1 /\ trial = 0 /\ silent = FALSE /\ updates = 0
        /\ gradok = TRUE /\ ckpts = <<>> /\ stopped = FALSE /\ blind = FALSE /\ log = <<>>

Start == /\ pc = "start"
         /\ pc' = "top"
         \* ... then `p.requires_grad = True` for every parameter: the setter fires a change event
         /\ log' = log \o (IF WithConv THEN <<"init", "conv", "notify", "notify">> ELSE <<"init", "notify">>)
         /\ UNCHANGED <<epoch, trial, silent, updates, gradok, ckpts, stopped, blind>>

Top == /\ pc = "top"
       /\ IF epoch <= N /\ ~stopped THEN pc' = "trial" /\ trial' = 0 ELSE pc' = "finish" /\ UNCHANGED trial
       /\ UNCHANGED <<epoch, silent, updates, gradok, ckpts, stopped, blind, log>>

\* loss(); zero_grad(); backward(); inspect the gradients
Trial == /\ pc = "trial"
         /\ \E ok \in BOOLEAN : gradok' = ok /\ pc' = IF ok THEN "step" ELSE "retry"
         /\ Ev("loss")
         /\ UNCHANGED <<epoch, trial, silent, updates, ckpts, stopped, blind>>
\* non-finite gradient: every parameter is notified; another trial if any is left, otherwise the loop is exhausted
\* and control falls through to optimizer.step()
Retry == /\ pc = "retry"
         /\ Ev("notify")
         /\ IF trial + 1 < Trials THEN trial' = trial + 1 /\ pc' = "trial" ELSE pc' = "step" /\ UNCHANGED trial
         /\ UNCHANGED <<epoch, silent, updates, gradok, ckpts, stopped, blind>>
Step == /\ pc = "step"
        /\ silent' = TRUE /\ updates' = updates + 1
        /\ blind' = (blind \/ ~gradok)                                                 \* BlindStep when gradok is FALSE
        /\ pc' = "notify" /\ Ev("step")
        /\ UNCHANGED <<epoch, trial, gradok, ckpts, stopped>>
Notify == /\ pc = "notify"
          /\ silent' = FALSE /\ Ev("notify")
          /\ pc' = IF WithSched THEN "sched" ELSE IF WithConv THEN "conv" ELSE "advance"
          /\ UNCHANGED <<epoch, trial, updates, gradok, ckpts, stopped, blind>>
Sched == /\ pc = "sched" /\ Ev("sched")
         /\ pc' = IF WithConv THEN "conv" ELSE "advance"
         /\ UNCHANGED <<epoch, trial, silent, updates, gradok, ckpts, stopped, blind>>
\* res = convergence.check(epoch): not res -> break (no counter advance, no checkpoint); otherwise notify
Conv == /\ pc = "conv"
        /\ \E keep \in BOOLEAN :
             IF keep THEN /\ pc' = "advance" /\ log' = log \o <<"conv", "notify">> /\ UNCHANGED stopped
             ELSE /\ pc' = "finish" /\ stopped' = TRUE /\ Ev("conv")
        /\ UNCHANGED <<epoch, trial, silent, updates, gradok, ckpts, blind>>
Advance == /\ pc = "advance"
           /\ epoch' = epoch + 1
           /\ pc' = IF WithCkpt /\ (epoch % Freq = 0) THEN "ckpt" ELSE "top"
           /\ UNCHANGED <<trial, silent, updates, gradok, ckpts, stopped, blind, log>>
Ckpt == /\ pc = "ckpt"
        /\ ckpts' = Append(ckpts, [iteration |-> epoch, updates |-> updates])
        /\ Ev("ckpt") /\ pc' = "top"
        /\ UNCHANGED <<epoch, trial, silent, updates, gradok, stopped, blind>>
Finish == /\ pc = "finish" /\ pc' = "done" /\ Ev("close")
          /\ UNCHANGED <<epoch, trial, silent, updates, gradok, ckpts, stopped, blind>>

Next == Start \/ Top \/ Trial \/ Retry \/ Step \/ Notify \/ Sched \/ Conv \/ Advance \/ Ckpt \/ Finish
Spec == Init /\ [][Next]_vars

---------------------------------------------------------------------------
EvalSeesNotified == pc \in {"trial", "conv"} => ~silent
CkptResumable == \A i \in DOMAIN ckpts : ckpts[i].iteration = ckpts[i].updates + 1
Bounded == /\ updates <= N
           /\ (pc = "done" /\ ~stopped) => updates = N
NoBlindStep == ~blind
\* the log is a history variable: it does not influence behaviour
View == <<pc, epoch, trial, silent, updates, gradok, ckpts, stopped, blind>>
=============================================================================
