-------------------------------- MODULE Mcmc --------------------------------
(***************************************************************************)
(* C15.  The propose / evaluate / accept-reject / restore / log / tune     *)
(* loop of inference/mcmc/mcmc.py: MCMC.run, one action per phase.         *)
(*                                                                         *)
(* Values are abstract: parameter states and densities are identifiers.    *)
(* Target maps a state to the density the target model gives it when       *)
(* evaluated from scratch (0 stands for a non-finite value).  The loop     *)
(* carries lpCur across iterations instead of re-evaluating, restores the  *)
(* saved state on rejection and adapts a per-operator tuning level.        *)
(*                                                                         *)
(* The clause operators (C_...) are the statements of the property; they   *)
(* are used as invariants / action constraints here and evaluated on       *)
(* recorded transitions of the real loop by TraceMcmc.tla.                 *)
(***************************************************************************)
EXTENDS Integers, FiniteSets, TLC

CONSTANTS States,      \* state identifiers
          Lps,         \* density identifiers (positive); 0 = non-finite
          Target,      \* [States -> Lps \cup {0}]
          Ops,         \* operator identifiers
          Sign,        \* [Ops -> {1, -1}] : direction in which boldness grows with the adapted quantity
          MaxIter

VARIABLES pc, iter, op, state, lpCur, saved, prop, hast, lpProp, below, accepted,
          tuning,      \* [Ops -> Int]  adapted quantity (abstract level)
          accRel,      \* "above" | "below" | "equal" : acceptance probability vs target
          logged       \* last logged row <<state, density>>

vars == <<pc, iter, op, state, lpCur, saved, prop, hast, lpProp, below, accepted, tuning, accRel, logged>>

---------------------------------------------------------------------------
(* Clauses of the property *)
C_CarriedIsTarget(s, lp) == lp = Target[s]                    \* density carried for the current state
C_ProposedIsTarget(p, lp) == lp = Target[p]                   \* density used for the proposal
C_Decision(acc, shouldAccept) == acc = shouldAccept           \* accept iff u < min(1, exp(delta + hastings))
C_RejectRestores(sAfter, sSaved) == sAfter = sSaved           \* bit-identical restore
C_LogConsistent(row) == row[2] = Target[row[1]]               \* logged density is the target at the logged state
C_Tune(rel, before, after, sgn) ==                            \* boldness = sgn * level
    /\ rel = "above" => sgn * after >= sgn * before
    /\ rel = "below" => sgn * after <= sgn * before

---------------------------------------------------------------------------
Init == /\ pc = "select" /\ iter = 1
        /\ op \in Ops /\ state \in {s \in States : Target[s] # 0}
        /\ lpCur = Target[state]                               \* log_joint = joint() before the loop
        /\ saved = state /\ prop = state /\ hast = "finite" /\ lpProp = 0
        /\ below = FALSE /\ accepted = FALSE
        /\ tuning = [o \in Ops |-> 0] /\ accRel = "equal"
        /\ logged = <<state, lpCur>>

Select == /\ pc = "select" /\ iter <= MaxIter
          /\ op' \in Ops                                       \* Categorical(weights).sample()
          /\ pc' = "propose"
          /\ UNCHANGED <<iter, state, lpCur, saved, prop, hast, lpProp, below, accepted, tuning, accRel, logged>>

Propose == /\ pc = "propose"
           /\ saved' = state                                   \* operator.step(): saved_tensors
           /\ prop' \in States                                 \* operator._step() writes the parameters
           /\ hast' \in {"finite", "inf"}
           /\ state' = prop'
           /\ pc' = IF hast' = "inf" THEN "skip" ELSE "eval"
           /\ UNCHANGED <<iter, op, lpCur, lpProp, below, accepted, tuning, accRel, logged>>

SkipInfinite == /\ pc = "skip"                                 \* isinf(hastings): no evaluation
                /\ accepted' = FALSE /\ accRel' = "below" /\ lpProp' = 0
                /\ pc' = "apply"
                /\ UNCHANGED <<iter, op, state, lpCur, saved, prop, hast, below, tuning, logged>>

EvalProposed == /\ pc = "eval"
                /\ lpProp' = Target[prop]                      \* joint() after the proposal
                /\ pc' = "decide"
                /\ UNCHANGED <<iter, op, state, lpCur, saved, prop, hast, below, accepted, tuning, accRel, logged>>

Decide == /\ pc = "decide"
          /\ IF lpProp = 0
             THEN below' = FALSE /\ accRel' = "below"          \* NaN / Inf: acceptance probability 0
             ELSE below' \in BOOLEAN /\ accRel' \in {"above", "below", "equal"}
          /\ accepted' = below'                                \* u < min(1, exp(log_alpha))
          /\ pc' = "apply"
          /\ UNCHANGED <<iter, op, state, lpCur, saved, prop, hast, lpProp, tuning, logged>>

Accept == /\ pc = "apply" /\ accepted
          /\ lpCur' = lpProp
          /\ pc' = "log"
          /\ UNCHANGED <<iter, op, state, saved, prop, hast, lpProp, below, accepted, tuning, accRel, logged>>

Reject == /\ pc = "apply" /\ ~accepted
          /\ state' = saved                                    \* operator.reject()
          /\ pc' = "log"
          /\ UNCHANGED <<iter, op, lpCur, saved, prop, hast, lpProp, below, accepted, tuning, accRel, logged>>

Log == /\ pc = "log"
       /\ logged' = <<state, lpCur>>
       /\ pc' = "tune"
       /\ UNCHANGED <<iter, op, state, lpCur, saved, prop, hast, lpProp, below, accepted, tuning, accRel>>

Tune == /\ pc = "tune"
        /\ tuning' = [tuning EXCEPT ![op] = @ + (CASE accRel = "above" -> 1 [] accRel = "below" -> -1 [] OTHER -> 0)]
        /\ iter' = iter + 1
        /\ pc' = "select"
        /\ UNCHANGED <<op, state, lpCur, saved, prop, hast, lpProp, below, accepted, accRel, logged>>

Next == Select \/ Propose \/ SkipInfinite \/ EvalProposed \/ Decide \/ Accept \/ Reject \/ Log \/ Tune
Spec == Init /\ [][Next]_vars

---------------------------------------------------------------------------
(* Properties of the loop, for every Target and every schedule *)
CarriedInvariant == pc = "select" => C_CarriedIsTarget(state, lpCur)
ProposedInvariant == pc = "decide" => C_ProposedIsTarget(prop, lpProp)
RestoreInvariant == pc = "log" /\ ~accepted => C_RejectRestores(state, saved)
LogInvariant == C_LogConsistent(logged)
NeverAcceptNonFinite == pc = "log" /\ accepted => lpCur # 0
TuneProperty == [][pc = "tune" => C_Tune(accRel, tuning[op], tuning'[op], 1)]_vars
\* boldness of operator o = Sign[o] * adapted level: holds iff every operator's boldness grows with the level
TuneBoldness == [][pc = "tune" => C_Tune(accRel, tuning[op], tuning'[op], Sign[op])]_vars

ProbeReject == ~(pc = "log" /\ ~accepted /\ prop # saved)
ProbeAccept == ~(pc = "log" /\ accepted /\ prop # saved)
ProbeInf == pc # "skip"
=============================================================================
