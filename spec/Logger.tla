------------------------------- MODULE Logger -------------------------------
(***************************************************************************)
(* Growth of the specification (section 8, item 2; served with C15): the  *)
(* life cycle of core/logger.py:Logger as the sampling loops drive it -    *)
(* initialize() (header, file truncated), log(sample=k) / log() (a row     *)
(* only when the sample number is a multiple of `every`; the private       *)
(* counter moves on every call, also when the caller passes the sample     *)
(* number), close().  The row is a snapshot of the parameter at the call.  *)
(*                                                                         *)
(* Impl: one action per public call, as in the code:                       *)
(*   Initialize   opens with mode 'w' (rows so far are gone), writes the   *)
(*                header, does NOT reset the private counter               *)
(*   LogExplicit  log(sample=s): counter += 1; row iff s % every = 0       *)
(*   LogImplicit  log():  s = counter; counter += 1; row iff s % every = 0 *)
(*   SetVal       the logged parameter changes                             *)
(*   Close        closes the file                                          *)
(* Req (what a user of the sampling loops relies on):                      *)
(*   RowsMultiples   every row's sample number is a multiple of `every`    *)
(*   RowsInOrder     rows appear in call order and each row shows the      *)
(*                   parameter as it was at that call (action property)    *)
(*   ImplicitCadence with implicit calls only, exactly one call in `every` *)
(*                   produces a row                                        *)
(*   McmcRows        the MCMC pattern (log(sample=0) after initialize,     *)
(*                   then log(sample=e) for e = 1..n) yields the rows      *)
(*                   0, every, 2 every, ... <= n                           *)
(*   HeaderFirst     an open file always starts with exactly one header    *)
(* The harness replays every explored behaviour on the real Logger writing *)
(* to a real file and compares file content after each call (binding).     *)
(***************************************************************************)
EXTENDS Integers, Sequences, FiniteSets, TLC

CONSTANTS Everys, Vals, MaxSample, MaxCalls, Emit

VARIABLES every, counter, open, headers, rows, val,
          c0,            \* counter at the last Initialize (history variable, for ImplicitCadence)
          mode,          \* "implicit" / "mcmc" / "mixed": which calling discipline the behaviour has followed since Initialize
          last,          \* last explicit sample number since Initialize (-1: none)
          hist           \* the calls, for emission
vars == <<every, counter, open, headers, rows, val, c0, mode, last, hist>>

Init == /\ every \in Everys /\ counter = 1 /\ open = FALSE /\ headers = 0 /\ rows = <<>>
        /\ val \in Vals /\ c0 = 1 /\ mode = "fresh" /\ last = -1 /\ hist = <<[op |-> "start", arg |-> val]>>

Budget == Len(hist) < MaxCalls
Rec(op, arg) == hist' = Append(hist, [op |-> op, arg |-> arg])

Initialize == /\ Budget /\ ~open
              /\ open' = TRUE /\ headers' = 1 /\ rows' = <<>> /\ c0' = counter /\ mode' = "fresh" /\ last' = -1
              /\ Rec("initialize", 0) /\ UNCHANGED <<every, counter, val>>

Row(s) == IF s % every = 0 THEN Append(rows, [sample |-> s, val |-> val]) ELSE rows

LogExplicit(s) == /\ Budget /\ open
                  /\ counter' = counter + 1 /\ rows' = Row(s)
                  /\ mode' = IF mode \in {"fresh", "mcmc"} /\ s = last + 1 /\ (mode = "fresh" => s = 0) THEN "mcmc" ELSE "mixed"
                  /\ last' = s
                  /\ Rec("log", s) /\ UNCHANGED <<every, open, headers, val, c0>>

LogImplicit == /\ Budget /\ open
               /\ counter' = counter + 1 /\ rows' = Row(counter)
               /\ mode' = IF mode \in {"fresh", "implicit"} THEN "implicit" ELSE "mixed"
               /\ Rec("log", -1) /\ UNCHANGED <<every, open, headers, val, c0, last>>

SetVal(v) == /\ Budget /\ v # val /\ val' = v /\ Rec("set", v)
             /\ UNCHANGED <<every, counter, open, headers, rows, c0, mode, last>>

Close == /\ Budget /\ open /\ open' = FALSE /\ Rec("close", 0)
         /\ UNCHANGED <<every, counter, headers, rows, val, c0, mode, last>>

Next == /\ \/ Initialize \/ LogImplicit \/ Close
           \/ \E s \in 0..MaxSample : LogExplicit(s)
           \/ \E v \in Vals : SetVal(v)
        /\ (Emit /\ Len(hist') = MaxCalls =>
               PrintT(<<"LOGGER", [every |-> every, calls |-> hist', rows |-> rows', headers |-> headers',
                                   open |-> open', counter |-> counter']>>))
Spec == Init /\ [][Next]_vars

---------------------------------------------------------------------------
RowsMultiples == \A i \in 1..Len(rows) : rows[i].sample % every = 0
HeaderFirst == (open => headers = 1) /\ (headers = 0 => rows = <<>>)
\* floor division on the naturals
ImplicitCadence == mode = "implicit" => Len(rows) = ((counter - 1) \div every) - ((c0 - 1) \div every)
McmcRows == mode = "mcmc" => /\ Len(rows) = (last \div every) + 1
                             /\ \A i \in 1..Len(rows) : rows[i].sample = (i - 1) * every
\* action property: the file only grows by one row per log call, the row shows the current parameter; it shrinks only on Initialize
RowsInOrder == [][ \/ rows' = rows
                   \/ (Len(rows') = Len(rows) + 1 /\ SubSeq(rows', 1, Len(rows)) = rows /\ rows'[Len(rows')].val = val /\ open)
                   \/ (rows' = <<>> /\ ~open /\ open') ]_vars
\* the private counter counts log calls, whatever the caller passes
CounterCounts == counter = 1 + Cardinality({i \in 1..Len(hist) : hist[i].op = "log"})
=============================================================================
