--------------------------- MODULE CheckpointFSInd ---------------------------
(***************************************************************************)
(* C18, unbounded.  The "replace" writer of CheckpointFS.tla (the code as  *)
(* it is after the fix: write <name>.new, close it, os.replace it over     *)
(* <name>) re-stated with typed contents so that Apalache can discharge an *)
(* INDUCTIVE invariant: the safety properties then hold for any number of  *)
(* writes and crashes, not only up to TLC's MaxWrites.                     *)
(*                                                                         *)
(* A content is a record [kind, ver]: kind "absent" | "partial" |          *)
(* "complete"; ver is the write number of a complete document (0 else).    *)
(* Actions and program counters are those of CheckpointFS.tla with         *)
(* Protocol = "replace", Safely = TRUE, Overwrite = FALSE; the harness     *)
(* checks with TLC that the two specifications have the same reachable     *)
(* states for small MaxWrites (projection on fs, pc, v, good).             *)
(*                                                                         *)
(*   apalache-mc check --init=Init    --inv=IndInv --length=0   (base)     *)
(*   apalache-mc check --init=IndInit --inv=IndInv --length=1   (step)     *)
(*   apalache-mc check --init=IndInit --inv=Safety --length=0   (implies)  *)
(***************************************************************************)
EXTENDS Integers, Apalache

VARIABLES
    \* @type: Str -> { kind: Str, ver: Int };
    fs,
    \* @type: Str;
    pc,
    \* @type: Int;
    v,
    \* @type: Int;
    good

Files == {"name", "new", "old"}
Kinds == {"absent", "partial", "complete"}
PCs == {"idle", "open", "write", "close", "replace"}
Absent == [kind |-> "absent", ver |-> 0]
Partial == [kind |-> "partial", ver |-> 0]
Complete(w) == [kind |-> "complete", ver |-> w]

Init == /\ fs = [f \in Files |-> IF f = "name" THEN Complete(0) ELSE Absent]
        /\ pc = "idle" /\ v = 0 /\ good = 0

Start == /\ pc = "idle" /\ v' = v + 1 /\ pc' = "open" /\ UNCHANGED <<fs, good>>
Open == /\ pc = "open" /\ fs' = [fs EXCEPT !["new"] = Partial] /\ pc' = "write" /\ UNCHANGED <<v, good>>
Write == /\ pc = "write" /\ fs["new"] = Partial /\ pc' \in {"write", "close"} /\ UNCHANGED <<fs, v, good>>
Close == /\ pc = "close" /\ fs["new"] = Partial /\ fs' = [fs EXCEPT !["new"] = Complete(v)] /\ pc' = "replace" /\ UNCHANGED <<v, good>>
Replace == /\ pc = "replace" /\ fs["new"].kind # "absent"
           /\ fs' = [fs EXCEPT !["name"] = fs["new"], !["new"] = Absent]
           /\ pc' = "idle" /\ good' = v /\ UNCHANGED v
Crash == /\ pc # "idle" /\ pc' = "idle" /\ UNCHANGED <<fs, v, good>>
Next == Start \/ Open \/ Write \/ Close \/ Replace \/ Crash

---------------------------------------------------------------------------
TypeOK == /\ DOMAIN fs = Files /\ \A f \in Files : fs[f].kind \in Kinds
          /\ pc \in PCs

\* the inductive invariant
IndInv == /\ TypeOK
          /\ 0 <= good /\ good <= v
          /\ fs["name"] = Complete(good)                       \* the name always holds the last completed write, whole
          /\ fs["old"] = Absent
          /\ fs["new"].kind = "complete" => fs["new"].ver <= v /\ fs["new"].ver >= good
          /\ fs["new"].kind # "complete" => fs["new"].ver = 0
          /\ pc \in {"write", "close"} => fs["new"] = Partial
          /\ pc = "replace" => fs["new"] = Complete(v)
          /\ pc # "idle" => good < v

\* any state satisfying the invariant (Gen: Apalache's generator of arbitrary values of the variable's type)
IndInit == /\ fs = Gen(3) /\ pc = Gen(1) /\ v = Gen(1) /\ good = Gen(1)
           /\ IndInv

\* the properties of C18 (CheckpointFS.tla: Recoverable, LastGoodKept, NameNotTruncated)
Safety == /\ \E f \in Files : fs[f].kind = "complete" /\ fs[f].ver >= good
          /\ fs["name"].kind # "partial"
=============================================================================
