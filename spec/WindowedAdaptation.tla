------------------------- MODULE WindowedAdaptation -------------------------
(***************************************************************************)
(* Growth of the specification (HMC warm-up, served with C15): the         *)
(* schedule of inference/hmc/stan_adaptation.py:StanWindowedAdaptation -   *)
(* which iterations feed the step-size adaptor, which feed the mass-matrix *)
(* adaptor, where the slow windows end (mass matrix learned once more,     *)
(* both adaptors restarted), how the next window is computed.              *)
(*                                                                         *)
(* All quantities are kept multiplied by 20, because the fallback          *)
(* configuration (init + base + term > warm-up) sets the buffers to        *)
(* 0.15 / 0.75 / 0.10 of the warm-up WITHOUT rounding (Stan casts them to  *)
(* unsigned integers): window ends are then compared by equality with      *)
(* non-integers.                                                           *)
(*                                                                         *)
(* Impl: the code, statement by statement (action Learn = one call of      *)
(* learn()).  Req, from the Stan reference manual the docstring cites:     *)
(*   SlowOnce     every iteration of the slow phase [init, W - term) feeds *)
(*                the mass-matrix estimator exactly once                   *)
(*   WindowsTile  the slow windows tile the slow phase: the first has the  *)
(*                base width, each next one twice the previous, the last   *)
(*                one is stretched to the end; both adaptors restart at    *)
(*                window ends and only there                               *)
(*   FastOnly     outside the slow phase only the step size is adapted;    *)
(*                nothing is adapted after W iterations                    *)
(* The harness replays every explored schedule on the real class with      *)
(* counting adaptors (binding) and reports where Impl departs from Req.    *)
(***************************************************************************)
EXTENDS Integers, Sequences, FiniteSets, TLC

CONSTANTS Warmups, Inits, Terms, Bases, Emit

VARIABLES W, ini, trm, bas,        \* configuration as given
          init20, term20, base20,  \* configured buffers (x 20)
          counter, size20, next20, \* adapt_window_counter, adapt_window_size (x 20), adapt_next_window (x 20)
          hist                     \* per iteration: [ss, mm, restart] - step-size calls, mass-matrix calls, restart?
vars == <<W, ini, trm, bas, init20, term20, base20, counter, size20, next20, hist>>

Init == /\ W \in Warmups /\ ini \in Inits /\ trm \in Terms /\ bas \in Bases
        /\ IF ini + bas + trm > W
           THEN init20 = 3 * W /\ term20 = 2 * W /\ base20 = 20 * W - (3 * W + 2 * W)     \* 0.15, 0.10, the rest
           ELSE init20 = 20 * ini /\ term20 = 20 * trm /\ base20 = 20 * bas
        /\ counter = 0 /\ size20 = base20 /\ next20 = init20 + base20 - 20
        /\ hist = <<>>

C20 == 20 * counter
InWindow == C20 >= init20 /\ C20 < 20 * W - term20 /\ counter # W
EndWindow == C20 = next20 /\ counter # W
\* _compute_next_window
NextWindow ==
    IF next20 = 20 * W - term20 - 20 THEN <<size20, next20>>
    ELSE LET s == 2 * size20
             n == C20 + s
         IN  IF n = 20 * W - term20 - 20 THEN <<s, n>>
             ELSE IF n + 2 * s >= 20 * W - term20 THEN <<s, 20 * W - term20 - 20>> ELSE <<s, n>>

Learn == /\ counter < W + 2                       \* two calls beyond the warm-up, to see that nothing happens
         /\ IF counter >= W
            THEN /\ hist' = Append(hist, [ss |-> 0, mm |-> 0, restart |-> FALSE])
                 /\ UNCHANGED <<counter, size20, next20>>                          \* early return: the counter does not move
            ELSE /\ hist' = Append(hist, [ss |-> 1, mm |-> (IF InWindow THEN 1 ELSE 0) + (IF EndWindow THEN 1 ELSE 0), restart |-> EndWindow])
                 /\ IF EndWindow THEN size20' = NextWindow[1] /\ next20' = NextWindow[2] ELSE UNCHANGED <<size20, next20>>
                 /\ counter' = counter + 1
         /\ Len(hist) < W + 2
         /\ UNCHANGED <<W, ini, trm, bas, init20, term20, base20>>
         /\ (Emit /\ Len(hist') = W + 2 => PrintT(<<"SCHEDULE", [W |-> W, init |-> ini, term |-> trm, base |-> bas, hist |-> hist']>>))
Spec == Init /\ [][Learn]_vars

---------------------------------------------------------------------------
Done == Len(hist) = W + 2
Slow(i) == 20 * i >= init20 /\ 20 * i < 20 * W - term20          \* iteration i (0-based) lies in the slow phase
Ends == {i \in 0..(W - 1) : hist[i + 1].restart}
SlowOnce == Done => \A i \in 0..(W - 1) : Slow(i) => hist[i + 1].mm = 1
FastOnly == Done => /\ \A i \in 0..(W - 1) : ~Slow(i) => hist[i + 1].mm = 0
                    /\ \A i \in 0..(W - 1) : hist[i + 1].ss = 1
                    /\ \A i \in W..(W + 1) : hist[i + 1].ss = 0 /\ hist[i + 1].mm = 0 /\ ~hist[i + 1].restart
\* the windows tile the slow phase: the last end is the last slow iteration, every end is a slow iteration
WindowsTile == Done => /\ (\E i \in 0..(W - 1) : Slow(i)) => (\E e \in Ends : \A i \in 0..(W - 1) : Slow(i) => i <= e) /\ \A e \in Ends : Slow(e)
Integral == (init20 % 20 = 0) /\ (term20 % 20 = 0) /\ (base20 % 20 = 0)
=============================================================================
