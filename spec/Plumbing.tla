------------------------------ MODULE Plumbing ------------------------------
(***************************************************************************)
(* C02.  How a tree and its data can be written down, and the plumbing     *)
(* that has to undo it: taxon-name -> leaf-index matching, sorting of the  *)
(* sequences into Taxa order, pattern compression, child order, and the    *)
(* position of the root of an unrooted tree (root branch collapsed by a    *)
(* zero length).                                                           *)
(*                                                                         *)
(* A write-up R = (taxa order, sequence-list order, ordered tree with      *)
(* branch lengths, column order).  The rewrite actions change the write-up *)
(* without changing what it means; Canon(R) (the set of splits of the      *)
(* unrooted tree with their lengths + the multiset of alignment columns as *)
(* name -> symbol maps) is constant.  The derived operators transcribe the *)
(* code (leaf index = position in Taxa; post-order internal indices;       *)
(* keep_branch_lengths convention of UnRootedTreeModel.from_json and the   *)
(* zero appended in TreeLikelihoodModel._call; Alignment.__init__ sort;    *)
(* compress: Counter over column tuples, sorted patterns, weights) and the *)
(* invariants say that what reaches the pruning kernel is the same tree    *)
(* and the same data whatever the write-up.                                *)
(***************************************************************************)
EXTENDS Integers, Sequences, FiniteSets, TLC, Json, SequencesExt, FiniteSetsExt

CONSTANTS Names,       \* sequence of taxon names in the reference order
          Tree0,       \* reference tree: <<"L", name, len>> | <<"N", left, right, len>>
          Cols0,       \* reference alignment: sequence of columns, each a function name -> symbol
          Ord,         \* symbol -> ASCII code (Python sorts patterns by it)
          MaxDepth, Emit, EmitMod

VARIABLES taxa, seqs, tree, cols, rootMoved, depth

vars == <<taxa, seqs, tree, cols, rootMoved, depth>>
N == Len(Names)
NameSet == {Names[i] : i \in 1..N}

IsLeaf(t) == t[1] = "L"
Len_(t) == IF IsLeaf(t) THEN t[3] ELSE t[4]
SetLen(t, x) == IF IsLeaf(t) THEN <<"L", t[2], x>> ELSE <<"N", t[2], t[3], x>>
RECURSIVE LeavesOf(_)
LeavesOf(t) == IF IsLeaf(t) THEN {t[2]} ELSE LeavesOf(t[2]) \cup LeavesOf(t[3])

---------------------------------------------------------------------------
(* meaning of a write-up *)
Ref == Names[1]
Side(S) == IF Ref \in S THEN NameSet \ S ELSE S       \* normalised side of a bipartition
RECURSIVE InnerSplits(_)
InnerSplits(t) == IF IsLeaf(t) THEN {} ELSE
    {<<Side(LeavesOf(t[2])), Len_(t[2])>>, <<Side(LeavesOf(t[3])), Len_(t[3])>>} \cup InnerSplits(t[2]) \cup InnerSplits(t[3])
\* the two root branches are one edge of the unrooted tree
Splits(t) == LET a == t[2] b == t[3]
             IN  {<<Side(LeavesOf(a)), Len_(a) + Len_(b)>>} \cup InnerSplits(a) \cup InnerSplits(b)
ColBag(cs) == [c \in {cs[i] : i \in 1..Len(cs)} |-> Cardinality({i \in 1..Len(cs) : cs[i] = c})]
Canon(t, cs) == <<Splits(t), ColBag(cs)>>

---------------------------------------------------------------------------
(* rewrites *)
SwapSeq(s, i) == [k \in 1..Len(s) |-> IF k = i THEN s[i + 1] ELSE IF k = i + 1 THEN s[i] ELSE s[k]]
RECURSIVE SwapAt(_, _)
SwapAt(t, path) == IF path = <<>> THEN <<"N", t[3], t[2], t[4]>>
                   ELSE IF Head(path) = 1 THEN <<"N", SwapAt(t[2], Tail(path)), t[3], t[4]>>
                   ELSE <<"N", t[2], SwapAt(t[3], Tail(path)), t[4]>>
RECURSIVE InternalPaths(_)
InternalPaths(t) == IF IsLeaf(t) THEN {} ELSE
    {<<>>} \cup {<<1>> \o p : p \in InternalPaths(t[2])} \cup {<<2>> \o p : p \in InternalPaths(t[3])}
\* move the root across its right / left child: ((A,(B,C)) -> ((A,B),C)
RotRight(t) == LET A == t[2] X == t[3] IN
               <<"N", <<"N", SetLen(A, Len_(A) + Len_(X)), X[2], 0>>, X[3], 0>>
RotLeft(t) == LET X == t[2] C == t[3] IN
              <<"N", X[2], <<"N", X[3], SetLen(C, Len_(C) + Len_(X)), 0>>, 0>>

Bump == depth < MaxDepth /\ depth' = depth + 1
PermuteTaxa == \E i \in 1..(N - 1) : Bump /\ taxa' = SwapSeq(taxa, i) /\ UNCHANGED <<seqs, tree, cols, rootMoved>>
PermuteSeqs == \E i \in 1..(N - 1) : Bump /\ seqs' = SwapSeq(seqs, i) /\ UNCHANGED <<taxa, tree, cols, rootMoved>>
SwapChildren == \E p \in InternalPaths(tree) : Bump /\ tree' = SwapAt(tree, p) /\ UNCHANGED <<taxa, seqs, cols, rootMoved>>
PermuteCols == \E i \in 1..(Len(cols) - 1) : Bump /\ cols' = SwapSeq(cols, i) /\ UNCHANGED <<taxa, seqs, tree, rootMoved>>
Reroot == /\ Bump /\ rootMoved' = TRUE /\ UNCHANGED <<taxa, seqs, cols>>
          /\ \/ (~IsLeaf(tree[3]) /\ tree' = RotRight(tree))
             \/ (~IsLeaf(tree[2]) /\ tree' = RotLeft(tree))

Init == taxa = Names /\ seqs = Names /\ tree = Tree0 /\ cols = Cols0 /\ rootMoved = FALSE /\ depth = 0

---------------------------------------------------------------------------
(* the code's plumbing *)
Pos(s, x) == CHOOSE i \in 1..Len(s) : s[i] = x
LeafIndex(name) == Pos(taxa, name) - 1                         \* setup_indexes: taxa_dict[label]

RECURSIVE Idx(_, _)
\* <<triples, index of the root of t, next free, lengths by index (function)>>
Idx(t, next) ==
    IF IsLeaf(t) THEN <<<<>>, LeafIndex(t[2]), next, (LeafIndex(t[2]) :> t[3])>>
    ELSE LET l == Idx(t[2], next)
             r == Idx(t[3], l[3])
             me == r[3]
         IN  <<l[1] \o r[1] \o <<<<me, l[2], r[2]>>>>, me, me + 1, ((me :> t[4]) @@ l[4] @@ r[4])>>
Post == Idx(tree, N)[1]
RootIdx == Idx(tree, N)[2]
RawLen == Idx(tree, N)[4]
\* UnRootedTreeModel.from_json with keep_branch_lengths, then the zero appended by the likelihood
EffLen == LET rt == Post[Len(Post)]
              c1 == rt[2]  c2 == rt[3]
              merged == [i \in 0..(2 * N - 3) |-> IF i = c1 THEN RawLen[c1] + RawLen[c2]
                                                  ELSE IF i = c2 THEN RawLen[c2] + RawLen[c1] ELSE RawLen[i]]
          IN  [i \in 0..(2 * N - 3) |-> IF i = 2 * N - 3 THEN 0 ELSE merged[i]]

\* the unrooted tree the kernel sees: leaves under each node index, from the triples
RECURSIVE Under(_)
Under(i) == IF i < N THEN {taxa[i + 1]}
            ELSE LET tr == CHOOSE x \in {Post[k] : k \in 1..Len(Post)} : x[1] = i IN Under(tr[2]) \cup Under(tr[3])
KernelSplits == LET rt == Post[Len(Post)]
                    inner == {<<Side(Under(i)), EffLen[i]>> : i \in (0..(2 * N - 3)) \ {rt[2], rt[3]}}
                IN  {<<Side(Under(rt[2])), EffLen[rt[2]] + EffLen[rt[3]]>>} \cup inner

\* Alignment.__init__: the sequence list sorted into Taxa order; compress: columns as tuples in that order
Row(name) == [j \in 1..Len(cols) |-> cols[j][name]]
Aligned == [i \in 1..N |-> Row(taxa[i])]                        \* whatever the order of the sequence list
ColTuple(j) == [i \in 1..N |-> Aligned[i][j]]
Tuples == {ColTuple(j) : j \in 1..Len(cols)}
LexLess(a, b) == \E k \in 1..N : (\A m \in 1..(k - 1) : a[m] = b[m]) /\ Ord[a[k]] < Ord[b[k]]
Patterns == SortSeq(SetToSeq(Tuples), LexLess)                  \* sorted(count_dict.keys())
Weights == [p \in 1..Len(Patterns) |-> Cardinality({j \in 1..Len(cols) : ColTuple(j) = Patterns[p]})]
\* what the kernel sees as data: per pattern, a map name -> symbol, with multiplicity
KernelBag == LET asMap(p) == [nm \in NameSet |-> Patterns[p][Pos(taxa, nm)]]
             IN  [c \in {asMap(p) : p \in 1..Len(Patterns)} |->
                     MapThenSumSet(LAMBDA p : IF asMap(p) = c THEN Weights[p] ELSE 0, 1..Len(Patterns))]

---------------------------------------------------------------------------
Code == depth + 3 * Len(Post) + Pos(taxa, Names[1]) * 7 + Pos(seqs, Names[2]) * 11 + Post[1][1] + 5 * Post[1][2] + Pos(cols, Cols0[1]) * 13
EmitState == Emit /\ Code % EmitMod = 0 =>
    PrintT(<<"CASE", ToJson([taxa |-> taxa, seqs |-> seqs, tree |-> tree, cols |-> cols, rootMoved |-> rootMoved,
                              post |-> Post, eff |-> [i \in 1..(2 * N - 2) |-> EffLen[i - 1]],
                              patterns |-> Patterns, weights |-> Weights])>>)
Next == (PermuteTaxa \/ PermuteSeqs \/ SwapChildren \/ PermuteCols \/ Reroot) /\ EmitState
Spec == Init /\ [][Next]_vars

(* the rewrites preserve the meaning (sanity of the generator) *)
CanonConstant == Canon(tree, cols) = Canon(Tree0, Cols0)
(* the plumbing undoes the write-up *)
SameTreeReachesKernel == KernelSplits = Splits(Tree0)
SameDataReachesKernel == KernelBag = ColBag(Cols0)
WeightsCountColumns == MapThenSumSet(LAMBDA p : Weights[p], 1..Len(Patterns)) = Len(cols)
ZeroBranchIsRootChild == LET rt == Post[Len(Post)] IN (2 * N - 3) \in {rt[2], rt[3]}
=============================================================================
