---------------------------- MODULE TraceRescale ----------------------------
(***************************************************************************)
(* C03, code -> spec.  Histories of evaluations recorded from one real     *)
(* TreeLikelihoodModel (classes of the smallest site likelihood measured   *)
(* by the extended-range reference, rescale flag after the call, accuracy  *)
(* of every returned value) stepped through Rescale.Eval.  Total           *)
(* validation: the first failing clause is reported per trace.             *)
(*   Accurate / FiniteIfTrue   : clauses of the property (every later      *)
(*                               evaluation stays consistent with the      *)
(*                               reference)                                *)
(*   bind:sticky-flag, bind:flag : the flag does not follow the specified  *)
(*                               switching policy (model drift, not a      *)
(*                               violation: only values are observable)    *)
(***************************************************************************)
EXTENDS Rescale, Sequences, Json, IOUtils

VARIABLES tid, l, fail, failAt
Traces == JsonDeserialize(IOEnv.TRACE_FILE)
Ev == Traces[tid][l]
AsSet(s) == {s[i] : i \in 1..Len(s)}

TInit == Init /\ tid \in 1..Len(Traces) /\ l = 1 /\ fail = "" /\ failAt = 0

First(cands) == LET bad == SelectSeq(cands, LAMBDA c : ~c[2]) IN IF bad = <<>> THEN "" ELSE bad[1][1]

TEval == /\ l <= Len(Traces[tid])
         /\ LET B == AsSet(Ev.classes)
                specFlag == rescale \/ Triggers(B)
                res == AsSet(Ev.results)
                f == First(<< <<"bind:sticky-flag", rescale => Ev.flag>>,
                              <<"FiniteIfTrue", "-inf" \notin res>>,
                              <<"Accurate", "lossy" \notin res>>,
                              <<"bind:flag", Ev.flag = specFlag>> >>)
            IN  /\ rescale' = Ev.flag /\ last' = res /\ n' = n + 1
                /\ fail' = IF fail # "" THEN fail ELSE f
                /\ failAt' = IF fail # "" \/ f = "" THEN failAt ELSE l
         /\ l' = l + 1 /\ tid' = tid
         /\ (l + 1 > Len(Traces[tid]) => PrintT(<<"VERDICT", tid, fail', failAt'>>))
TSpec == TInit /\ [][TEval]_<<rescale, n, last, tid, l, fail, failAt>>
=============================================================================
