------------------------------ MODULE CliConfig ------------------------------
(***************************************************************************)
(* C19.  What makes a configuration emitted by torchtree-cli well formed,  *)
(* stated over an abstraction of the emitted JSON document:                *)
(*                                                                         *)
(*   Tops      the top-level elements in document order; each one is the   *)
(*             set of ids it defines (itself and every nested object) and  *)
(*             the set of ids it mentions by name                          *)
(*   Link      id -> the ids it is computed from: the x of a transformed   *)
(*             parameter, the height parameters of a time tree             *)
(*   HasJac    ids that are callable log-Jacobian terms (transformed       *)
(*             parameters other than unit-scale affine / cumulative-sum    *)
(*             ones, and a time tree with ratio heights)                   *)
(*   PriorArgs the ids on which a prior density is placed (the x of every  *)
(*             distribution in the prior, the field of a GMRF, the tree    *)
(*             of a coalescent / birth-death prior, the branch lengths)    *)
(*   Jac       the members of the density handed to the sampler /          *)
(*             optimiser besides the constrained joint (a sequence: a      *)
(*             repeated member is a double count)                          *)
(*   Raw       the parameters handed to the sampler / optimiser            *)
(*                                                                         *)
(* Rules.  References resolve in loading order (C13's requirement) and ids *)
(* are unique.  The Jacobian rule: walking Link upstream from the prior    *)
(* arguments down to the raw parameters, every link that has a Jacobian    *)
(* term is owed exactly once; terms all of whose raw parameters carry no   *)
(* prior at all are optional (the density over such a parameter is a       *)
(* convention); nothing else may be counted, nothing twice.                *)
(* The walk is a state machine (one id per step) so that TLC computes and  *)
(* checks the closure; the verdict is read off the final state.            *)
(***************************************************************************)
EXTENDS Naturals, Sequences, FiniteSets, TLC

CONSTANTS Configs          \* sequence of records [name, tops, link, hasjac, priorargs, jac, raw, check]

VARIABLES c,               \* index of the configuration under examination
          cfg,             \* the configuration itself (a variable so that the constant is evaluated once, not per access)
          up, frontier,    \* ids upstream of the prior arguments (closure under Link), work list
          phase            \* "walk" | "done"
vars == <<c, cfg, up, frontier, phase>>

Cfg == cfg
LinkOf(i) == IF i \in DOMAIN Cfg.link THEN Cfg.link[i] ELSE {}

Init == LET C == Configs IN
        \E i \in DOMAIN C : /\ c = i /\ cfg = C[i]
                             /\ up = C[i].priorargs /\ frontier = C[i].priorargs
                             /\ phase = "walk"
Walk == /\ phase = "walk" /\ frontier # {}
        /\ LET i == CHOOSE j \in frontier : TRUE
               new == LinkOf(i) \ up IN
           /\ up' = up \cup new
           /\ frontier' = (frontier \ {i}) \cup new
        /\ UNCHANGED <<c, cfg, phase>>
Finish == /\ phase = "walk" /\ frontier = {}
          /\ phase' = "done" /\ UNCHANGED <<c, cfg, up, frontier>>
Next == Walk \/ Finish
Spec == Init /\ [][Next]_vars

---------------------------------------------------------------------------
(* structure of the document *)
DefsBefore(k) == UNION {Cfg.tops[j].defs : j \in 1..(k - 1)}
RefsResolve == \A k \in DOMAIN Cfg.tops : Cfg.tops[k].refs \subseteq (DefsBefore(k) \cup Cfg.tops[k].defs)
UniqueIds == /\ \A k \in DOMAIN Cfg.tops : Cfg.tops[k].dups = {}
             /\ \A j, k \in DOMAIN Cfg.tops : j # k => Cfg.tops[j].defs \cap Cfg.tops[k].defs = {}
AllDefs == UNION {Cfg.tops[k].defs : k \in DOMAIN Cfg.tops}
RawDefined == \A i \in DOMAIN Cfg.raw : Cfg.raw[i] \in AllDefs
RawDistinct == \A i, j \in DOMAIN Cfg.raw : i # j => Cfg.raw[i] # Cfg.raw[j]
JacDefined == \A i \in DOMAIN Cfg.jac : Cfg.jac[i] \in AllDefs

(* the Jacobian rule, read in the final state *)
RECURSIVE Leaves(_, _)
Leaves(i, fuel) == IF LinkOf(i) = {} \/ fuel = 0 THEN {i} ELSE UNION {Leaves(j, fuel - 1) : j \in LinkOf(i)}
RawOf(i) == Leaves(i, 8)
Owed == {i \in up : i \in Cfg.hasjac}
PriorRaw == UNION {RawOf(i) : i \in Cfg.priorargs}
Optional == {i \in Cfg.hasjac \ up : RawOf(i) \cap PriorRaw = {}}
JacSet == {Cfg.jac[i] : i \in DOMAIN Cfg.jac}
NothingMissing == Owed \subseteq JacSet
NothingExtra == JacSet \subseteq (Owed \cup Optional)
NothingTwice == \A i, j \in DOMAIN Cfg.jac : i # j => Cfg.jac[i] # Cfg.jac[j]
\* every raw parameter handed to the sampler is a leaf of the model, and every leaf under a prior is handed over
RawAreLeaves == \A i \in DOMAIN Cfg.raw : LinkOf(Cfg.raw[i]) = {}

JacobianRule == (phase = "done" /\ Cfg.check) => NothingMissing /\ NothingExtra /\ NothingTwice
Structure == phase = "done" => RefsResolve /\ UniqueIds /\ RawDefined /\ RawDistinct /\ JacDefined /\ RawAreLeaves
=============================================================================
