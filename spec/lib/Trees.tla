------------------------------- MODULE Trees -------------------------------
(***************************************************************************)
(* Rooted binary trees with ordered children and the index conventions of  *)
(* evolution/tree_model.py.                                                *)
(*   leaf     <<"L", i>>    i = position of its taxon in the Taxa list     *)
(*                          (setup_indexes: taxa_dict[label]) = leaf index *)
(*   internal <<"N", l, r>> children in the order they are written         *)
(* Internal indices n .. 2n-2 are handed out in post-order (setup_indexes),*)
(* post-order triples <<node, child0, child1>> drive the pruning recursion *)
(* (update_traversals), pre-order pairs <<parent, child>> the node-height  *)
(* transforms.                                                             *)
(***************************************************************************)
EXTENDS Naturals, Sequences, FiniteSets

RECURSIVE TreesOver(_)
\* every ordered binary tree whose leaves are exactly the set L
TreesOver(L) ==
    IF Cardinality(L) = 1 THEN {<<"L", CHOOSE x \in L : TRUE>>}
    ELSE UNION { {<<"N", a, b>> : a \in TreesOver(A), b \in TreesOver(L \ A)} : A \in (SUBSET L) \ {{}, L} }

IsLeaf(t) == t[1] = "L"

RECURSIVE NLeaves(_)
NLeaves(t) == IF IsLeaf(t) THEN 1 ELSE NLeaves(t[2]) + NLeaves(t[3])

RECURSIVE Index(_, _)
\* <<post-order triples, index of t's root, next free internal index>>
Index(t, next) ==
    IF IsLeaf(t) THEN <<<<>>, t[2], next>>
    ELSE LET l == Index(t[2], next)
             r == Index(t[3], l[3])
             me == r[3]
         IN  <<l[1] \o r[1] \o <<<<me, l[2], r[2]>>>>, me, me + 1>>

Postorder(t) == Index(t, NLeaves(t))[1]
RootIndex(t) == Index(t, NLeaves(t))[2]

RECURSIVE PreorderFrom(_, _, _)
\* pre-order <<parent, child>> pairs; idx maps subtrees to indices through the triples
PreorderFrom(t, me, trip) ==
    IF IsLeaf(t) THEN <<>>
    ELSE LET tr == CHOOSE x \in {trip[i] : i \in 1..Len(trip)} : x[1] = me
         IN  <<<<me, tr[2]>>>> \o PreorderFrom(t[2], tr[2], trip)
             \o <<<<me, tr[3]>>>> \o PreorderFrom(t[3], tr[3], trip)
Preorder(t) == PreorderFrom(t, RootIndex(t), Postorder(t))

RECURSIVE Newick(_, _)
\* names[i+1] is the label of the taxon at position i
Newick(t, names) == IF IsLeaf(t) THEN names[t[2] + 1]
                    ELSE "(" \o Newick(t[2], names) \o "," \o Newick(t[3], names) \o ")"
=============================================================================
