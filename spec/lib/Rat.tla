-------------------------------- MODULE Rat --------------------------------
(***************************************************************************)
(* Exact rational arithmetic for TLC: a rational is a pair <<n, d>> with   *)
(* d > 0 and gcd(|n|, d) = 1.  TLC's integers are 32-bit: the driver       *)
(* treats an overflow as a machinery failure, never as a verdict.          *)
(***************************************************************************)
EXTENDS Integers, Sequences

Abs(x) == IF x < 0 THEN -x ELSE x
RECURSIVE Gcd(_, _)
Gcd(a, b) == IF b = 0 THEN a ELSE Gcd(b, a % b)

R(n, d) == LET s == IF d < 0 THEN -1 ELSE 1
               g == Gcd(Abs(n), Abs(d))
           IN  IF n = 0 THEN <<0, 1>> ELSE <<(s * n) \div g, (s * d) \div g>>
RInt(n) == <<n, 1>>
RZero == <<0, 1>>
ROne == <<1, 1>>
\* (cross-cancelling keeps intermediate products small: TLC integers are 32-bit)
RAdd(a, b) == LET g == Gcd(a[2], b[2]) IN R(a[1] * (b[2] \div g) + b[1] * (a[2] \div g), (a[2] \div g) * b[2])
RNeg(a) == <<-a[1], a[2]>>
RSub(a, b) == RAdd(a, RNeg(b))
RMul(a, b) == LET g1 == Gcd(Abs(a[1]), b[2])  g2 == Gcd(Abs(b[1]), a[2])
                  n1 == IF g1 = 0 THEN 0 ELSE a[1] \div g1   d2 == IF g1 = 0 THEN b[2] ELSE b[2] \div g1
                  n2 == IF g2 = 0 THEN 0 ELSE b[1] \div g2   d1 == IF g2 = 0 THEN a[2] ELSE a[2] \div g2
              IN  R(n1 * n2, d1 * d2)
RDiv(a, b) == RMul(a, IF b[1] < 0 THEN <<-b[2], -b[1]>> ELSE <<b[2], b[1]>>)
RLe(a, b) == a[1] * b[2] <= b[1] * a[2]
RLt(a, b) == a[1] * b[2] < b[1] * a[2]
RIsZero(a) == a[1] = 0

\* sum / product of a sequence of rationals
RECURSIVE RSumSeq(_), RProdSeq(_)
RSumSeq(s) == IF s = <<>> THEN RZero ELSE RAdd(Head(s), RSumSeq(Tail(s)))
RProdSeq(s) == IF s = <<>> THEN ROne ELSE RMul(Head(s), RProdSeq(Tail(s)))
=============================================================================
