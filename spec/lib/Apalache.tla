------------------------------ MODULE Apalache ------------------------------
(***************************************************************************)
(* Stub for SANY / TLC only.  apalache-mc has its own built-in Apalache     *)
(* module (Gen, := ...); harness/apalache.py runs it from a scratch         *)
(* directory that does NOT contain this file, so the real Gen is used.      *)
(***************************************************************************)
Gen(n) == CHOOSE x : TRUE
=============================================================================
