---------------------------- MODULE CheckpointFS ----------------------------
(***************************************************************************)
(* C18.  File-system level model of torchtree's checkpoint writer          *)
(* (core/parameter_utils.py: save_parameters) under process death.         *)
(*                                                                         *)
(* The file system is a function from the three names of the checkpoint    *)
(* family to a content: Absent, Partial (an open-for-write or truncated    *)
(* file: a strict prefix, possibly empty, of a JSON document) or           *)
(* Complete(v) (the whole document of write number v).                     *)
(*                                                                         *)
(* Generic actions (FsOpen, FsWrite, FsClose, FsRename, FsRemove) give the *)
(* semantics of the POSIX calls; the writer program is a pc-guarded use of *)
(* them, one action per call of the code.  Protocol selects the program:   *)
(*   "replace" - the code as it is now: write .new, then                   *)
(*               os.replace(.new, name) (atomic)                           *)
(*   "rename2" - the code as shipped at the pinned commit (kept as a       *)
(*               control that TLC must flag): direct write when the name   *)
(*               does not exist, else .new / rename name->.old /           *)
(*               rename .new->name / rm .old                               *)
(* Crash is enabled at every pc: the process dies, buffered data are lost, *)
(* the directory stays as it is (process death, not power loss).           *)
(***************************************************************************)
EXTENDS Naturals, FiniteSets, TLC

CONSTANTS Files,        \* file names modelled: the family {"name","new","old"} (+ "other" for traces)
          MaxWrites,    \* bound on the number of writer invocations
          Protocol,     \* "rename2" | "replace"
          Safely,       \* the `safely` argument
          Overwrite     \* the `overwrite` argument

VARIABLES fs,       \* [Files -> Content]
          pc,       \* program counter of the writer; "idle" between writes
          v,        \* number of the write in progress (or last started)
          target,   \* file the document is being written to
          good,     \* number of the last write that ran to completion (0: the initial checkpoint)
          crashed   \* number of interrupted writes so far (history, hidden by VIEW)

vars == <<fs, pc, v, target, good, crashed>>

Family == {"name", "new", "old"}
ASSUME Family \subseteq Files
Absent == <<"absent">>
Partial == <<"partial">>
Complete(w) == <<"complete", w>>
IsComplete(c) == c[1] = "complete"
Exists(f) == fs[f] # Absent

Max(S) == CHOOSE x \in S : \A y \in S : y <= x
CompleteVersions == {fs[f][2] : f \in {g \in Files : IsComplete(fs[g])}}
Newest == IF CompleteVersions = {} THEN 0 ELSE Max(CompleteVersions)

---------------------------------------------------------------------------
(* POSIX semantics *)
FsOpen(f)      == fs' = [fs EXCEPT ![f] = Partial]               \* open(f,'w'): create or truncate
FsWrite(f)     == fs[f] = Partial /\ UNCHANGED fs                 \* a chunk: still a strict prefix
FsClose(f, w)  == fs[f] = Partial /\ fs' = [fs EXCEPT ![f] = Complete(w)]
FsRename(a, b) == Exists(a) /\ fs' = [fs EXCEPT ![b] = fs[a], ![a] = Absent]
FsRemove(f)    == Exists(f) /\ fs' = [fs EXCEPT ![f] = Absent]

---------------------------------------------------------------------------
(* The writer program *)
Init == /\ fs = [f \in Files |-> IF f = "name" THEN Complete(0) ELSE Absent]
        /\ pc = "idle" /\ v = 0 /\ target = "name" /\ good = 0 /\ crashed = 0

Direct == Overwrite \/ ~Safely \/ (Protocol = "rename2" /\ ~Exists("name"))

Start == /\ pc = "idle" /\ v < MaxWrites
         /\ v' = v + 1
         /\ target' = IF Direct THEN "name" ELSE "new"
         /\ pc' = "open"
         /\ UNCHANGED <<fs, good, crashed>>

Open  == pc = "open"  /\ FsOpen(target) /\ pc' = "write" /\ UNCHANGED <<v, target, good, crashed>>
Write == pc = "write" /\ FsWrite(target) /\ pc' \in {"write", "close"} /\ UNCHANGED <<v, target, good, crashed>>
Close == /\ pc = "close" /\ FsClose(target, v)
         /\ pc' = IF target = "name" THEN "idle"
                  ELSE IF Protocol = "replace" THEN "replace" ELSE "ren1"
         /\ good' = IF target = "name" THEN v ELSE good
         /\ UNCHANGED <<v, target, crashed>>
Ren1  == pc = "ren1" /\ FsRename("name", "old") /\ pc' = "ren2" /\ UNCHANGED <<v, target, good, crashed>>
Ren2  == pc = "ren2" /\ FsRename("new", "name") /\ pc' = "rm"   /\ UNCHANGED <<v, target, good, crashed>>
Rm    == pc = "rm"   /\ FsRemove("old")         /\ pc' = "idle" /\ good' = v /\ UNCHANGED <<v, target, crashed>>
Replace == pc = "replace" /\ FsRename("new", "name") /\ pc' = "idle" /\ good' = v /\ UNCHANGED <<v, target, crashed>>

Crash == /\ pc # "idle" /\ pc' = "idle" /\ crashed' = crashed + 1
         /\ UNCHANGED <<fs, v, target, good>>

Next == Start \/ Open \/ Write \/ Close \/ Ren1 \/ Ren2 \/ Rm \/ Replace \/ Crash
Spec == Init /\ [][Next]_vars

View == <<fs, pc, v, target, good>>

---------------------------------------------------------------------------
(* Properties *)
TypeOK == /\ fs \in [Files -> {Absent, Partial} \cup {Complete(w) : w \in 0..MaxWrites}]
          /\ pc \in {"idle", "open", "write", "close", "ren1", "ren2", "rm", "replace"}

\* some complete checkpoint of the family survives
Recoverable == \E f \in Family : IsComplete(fs[f])

\* ... and it is the previous one (the last write that ran to completion) or a newer one
LastGoodKept == \E f \in Family : IsComplete(fs[f]) /\ fs[f][2] >= good

\* the checkpoint name never refers to a truncated file
NameNotTruncated == fs["name"] # Partial

\* reachability probes (expected to be violated: vacuity control)
ProbeCrashMidRename == ~(pc = "idle" /\ ~Exists("name"))
ProbeTwoCrashes == crashed < 2
=============================================================================
