----------------------------- MODULE Transforms -----------------------------
(***************************************************************************)
(* C07(b).  The composition rule behind the hand-written log-Jacobians of  *)
(* the element-wise and cumulative transforms of                           *)
(* distributions/transforms.py.                                            *)
(*                                                                         *)
(* A transform is  y = g(D x)  where D is a dependency pattern             *)
(*    "diag"  D = I          (Log, SoftPlus, Exp, Sigmoid, Affine)         *)
(*    "cum"   D = lower-triangular ones, i.e. D x = cumsum(x)              *)
(*                            (CumSum, CumSumExp, CumSumSoftPlus)          *)
(* and g acts element-wise.  By the chain rule J = diag(g'(D x)) D, and    *)
(* the claim the code relies on is  det J = prod_i g'((D x)_i)  - the      *)
(* log-Jacobian is the sum of the logs of the element-wise derivatives at  *)
(* the cumulative sums - and that the inverse is  x = D^-1 g^-1(y), with   *)
(* D^-1 the first-difference operator for "cum".                           *)
(* TLC checks both on an integer lattice with a polynomial stand-in for g  *)
(* (g(u) = u^3 + u, g' = 3u^2 + 1 > 0), expanding the determinant by       *)
(* Leibniz' formula: the rule is proved on the lattice, not assumed; the   *)
(* harness then applies it with the real g (exp, softplus, log ...).       *)
(***************************************************************************)
EXTENDS Integers, Sequences, FiniteSets, TLC

CONSTANTS Dim, Vals
VARIABLES x, pat

G(u) == u * u * u + u
Gp(u) == 3 * u * u + 1

Idx == 1..Dim
Cum(v) == [i \in Idx |-> LET RECURSIVE s(_) s(k) == IF k = 0 THEN 0 ELSE v[k] + s(k - 1) IN s(i)]
Dx(v) == IF pat = "cum" THEN Cum(v) ELSE v
Forward(v) == [i \in Idx |-> G(Dx(v)[i])]
Dmat(i, j) == IF pat = "cum" THEN (IF j <= i THEN 1 ELSE 0) ELSE (IF i = j THEN 1 ELSE 0)
Jac(v) == [i \in Idx |-> [j \in Idx |-> Gp(Dx(v)[i]) * Dmat(i, j)]]

Perms == Permutations(Idx)
Inversions(p) == Cardinality({<<a, b>> \in Idx \X Idx : a < b /\ p[a] > p[b]})
RECURSIVE Prod(_, _)
Prod(f, k) == IF k = 0 THEN 1 ELSE f[k] * Prod(f, k - 1)
Det(M) == LET term(p) == (IF Inversions(p) % 2 = 0 THEN 1 ELSE -1) * Prod([i \in Idx |-> M[i][p[i]]], Dim)
              RECURSIVE sum(_)
              sum(Q) == IF Q = {} THEN 0 ELSE LET p == CHOOSE q \in Q : TRUE IN term(p) + sum(Q \ {p})
          IN  sum(Perms)

\* first differences undo the cumulative sum
Diff(c) == [i \in Idx |-> IF i = 1 THEN c[1] ELSE c[i] - c[i - 1]]

Init == x \in [Idx -> Vals] /\ pat \in {"diag", "cum"}
Next == UNCHANGED <<x, pat>>
Spec == Init /\ [][Next]_<<x, pat>>

DetRule == Det(Jac(x)) = Prod([i \in Idx |-> Gp(Dx(x)[i])], Dim)
InverseRule == pat = "cum" => Diff(Cum(x)) = x
=============================================================================
