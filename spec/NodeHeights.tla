----------------------------- MODULE NodeHeights -----------------------------
(***************************************************************************)
(* C06 / C07(a).  Node-height parameterisations of a time tree             *)
(* (evolution/tree_height_transform.py, tree_model.py), exact rationals.   *)
(*                                                                         *)
(* Sampling heights from dates (update_leaf_heights): if the smallest date *)
(* is 0 the dates are ages, otherwise calendar dates: height = max - date. *)
(* bound(node) = oldest sampling height among its descendants.             *)
(*   "ratio": x = (ratios of the non-root internal nodes, root height);    *)
(*            pre-order: h(c) = bound(c) + x(c) * (h(parent) - bound(c))   *)
(*   "shift": x = positive increments; post-order:                         *)
(*            h(v) = max(h(left), h(right)) + x(v)                         *)
(* Checked for every ordered labelled tree, every date vector and every    *)
(* lattice parameter: the result is a valid time tree, the inverse returns *)
(* the parameters, and the Jacobian determinant - built by the chain rule  *)
(* and expanded by Leibniz' formula, not assumed - equals the closed form  *)
(* the code reports: prod (h(parent(c)) - bound(c)) for "ratio", 1 for     *)
(* "shift".                                                                *)
(***************************************************************************)
EXTENDS Trees, Rat, TLC, Json, SequencesExt, FiniteSetsExt

CONSTANTS NTaxa, Kind, DateVals, ParamVals, RootOffsets, Emit, EmitMod

VARIABLES tree, dates, x, done

Leaves == 0..(NTaxa - 1)
Internal == NTaxa..(2 * NTaxa - 2)

MinDate == CHOOSE d \in {dates[i] : i \in Leaves} : \A j \in Leaves : d <= dates[j]
MaxDate == CHOOSE d \in {dates[i] : i \in Leaves} : \A j \in Leaves : d >= dates[j]
SampH(i) == IF MinDate = 0 THEN RInt(dates[i]) ELSE RInt(MaxDate - dates[i])

Post == Postorder(tree)
Pre == Preorder(tree)
Root == RootIndex(tree)
RMax(a, b) == IF RLe(a, b) THEN b ELSE a

\* NB: TLC re-evaluates a definition at every textual use; bounds, parents and heights are
\* therefore computed once per state (LET in Compute / AllOK) and passed as arguments.
BoundOf == FoldLeft(LAMBDA f, tr : (tr[1] :> RMax(f[tr[2]], f[tr[3]])) @@ f, [i \in Leaves |-> SampH(i)], Post)
ParentMap == [c \in (0..(2 * NTaxa - 2)) \ {Root} |-> (CHOOSE pc \in {Pre[k] : k \in 1..Len(Pre)} : pc[2] = c)[1]]

(* forward maps: functions node index -> height *)
RatioHeights(B) ==
    FoldLeft(LAMBDA h, pc : IF pc[2] < NTaxa THEN h
                            ELSE (pc[2] :> RAdd(B[pc[2]], RMul(x[pc[2]], RSub(h[pc[1]], B[pc[2]])))) @@ h,
             (Root :> x[Root]) @@ [i \in Leaves |-> SampH(i)], Pre)
ShiftHeights ==
    FoldLeft(LAMBDA h, tr : (tr[1] :> RAdd(RMax(h[tr[2]], h[tr[3]]), x[tr[1]])) @@ h, [i \in Leaves |-> SampH(i)], Post)
HeightsOf(B) == IF Kind = "ratio" THEN RatioHeights(B) ELSE ShiftHeights

BranchLength(P, h, c) == RSub(h[P[c]], h[c])

ValidTimeTree(P, h) == /\ \A i \in Leaves : h[i] = SampH(i)
                       /\ \A c \in DOMAIN P : RLe(h[c], h[P[c]])

(* inverse maps *)
RatioInverse(B, P, h) == [v \in Internal |-> IF v = Root THEN h[Root]
                                             ELSE RDiv(RSub(h[v], B[v]), RSub(h[P[v]], B[v]))]
ShiftInverse(h) == [v \in Internal |-> LET tr == CHOOSE t \in {Post[k] : k \in 1..Len(Post)} : t[1] = v
                                       IN  RSub(h[v], RMax(h[tr[2]], h[tr[3]]))]
InverseMap(B, P, h) == IF Kind = "ratio" THEN RatioInverse(B, P, h) ELSE ShiftInverse(h)

(* Jacobian d h(v) / d x(j) by the chain rule *)
RatioJac(B, h) ==
    FoldLeft(LAMBDA D, pc : IF pc[2] < NTaxa THEN D
                            ELSE (pc[2] :> [j \in Internal |-> RAdd(IF j = pc[2] THEN RSub(h[pc[1]], B[pc[2]]) ELSE RZero,
                                                                  RMul(x[pc[2]], D[pc[1]][j]))]) @@ D,
             (Root :> [j \in Internal |-> IF j = Root THEN ROne ELSE RZero]), Pre)
ShiftJac(h) ==
    FoldLeft(LAMBDA D, tr : LET l == tr[2] r == tr[3]
                                m == IF RLe(h[r], h[l]) THEN l ELSE r          \* torch.max: first maximal entry
                                below == IF m < NTaxa THEN [j \in Internal |-> RZero] ELSE D[m]
                            IN  (tr[1] :> [j \in Internal |-> RAdd(IF j = tr[1] THEN ROne ELSE RZero, below[j])]) @@ D,
             <<>>, Post)
JacOf(B, h) == IF Kind = "ratio" THEN RatioJac(B, h) ELSE ShiftJac(h)

Perms == Permutations(Internal)
Inversions(p) == Cardinality({<<a, b>> \in Internal \X Internal : a < b /\ p[a] > p[b]})
Det(D) == LET term(p) == LET prod == RProdSeq([k \in 1..(NTaxa - 1) |-> D[NTaxa + k - 1][p[NTaxa + k - 1]]])
                         IN  IF Inversions(p) % 2 = 0 THEN prod ELSE RNeg(prod)
              RECURSIVE sum(_)
              sum(Q) == IF Q = {} THEN RZero ELSE LET p == CHOOSE q \in Q : TRUE IN RAdd(term(p), sum(Q \ {p}))
          IN  sum(Perms)
ClosedFormDet(B, P, h) == IF Kind = "ratio"
                          THEN RProdSeq([k \in 1..(NTaxa - 2) |-> LET v == (SetToSeq(Internal \ {Root}))[k] IN RSub(h[P[v]], B[v])])
                          ELSE ROne

---------------------------------------------------------------------------
Init == /\ tree \in TreesOver(Leaves)
        /\ dates \in [Leaves -> DateVals]
        /\ done = FALSE
        /\ IF Kind = "ratio"
           THEN \E f \in [Internal -> ParamVals], o \in RootOffsets :      \* root height = bound(root) + offset
                    x = [v \in Internal |-> IF v = Root THEN RAdd(BoundOf[Root], RInt(o)) ELSE f[v]]
           ELSE x \in [Internal -> ParamVals]
Code == Cardinality({i \in Leaves : dates[i] = MinDate}) + 3 * Post[1][1] + 5 * Post[1][2] + 7 * dates[0] + 11 * dates[1]

Compute == /\ ~done /\ done' = TRUE /\ UNCHANGED <<tree, dates, x>>
           /\ (Emit /\ Code % EmitMod = 0 =>
                 LET B == BoundOf  P == ParentMap  h == HeightsOf(B) IN
                 PrintT(<<"CASE", ToJson([tree |-> tree, dates |-> dates, kind |-> Kind, x |-> [v \in Internal |-> x[v]],
                                          heights |-> [v \in 0..(2 * NTaxa - 2) |-> h[v]],
                                          branches |-> [c \in DOMAIN P |-> BranchLength(P, h, c)],
                                          det |-> ClosedFormDet(B, P, h), post |-> Post, pre |-> Pre])>>))
Spec == Init /\ [][Compute]_<<tree, dates, x, done>>

AllOK == LET B == BoundOf  P == ParentMap  h == HeightsOf(B) IN
         /\ ValidTimeTree(P, h)
         /\ \A c \in DOMAIN P : RLe(RZero, BranchLength(P, h, c))
         /\ InverseMap(B, P, h) = x
         /\ Det(JacOf(B, h)) = ClosedFormDet(B, P, h)
=============================================================================
