----------------------------- MODULE VarProtocol -----------------------------
(***************************************************************************)
(* C14 (protocol layer).  How a variational objective (kl.py ELBO / KLpq / *)
(* KLpqImportance, renyi.py VR, chi.py CUBO) obtains its samples:          *)
(* q.rsample writes a draw into the shared parameter x and fires change    *)
(* events, the cached joint p and the cached variational density q become  *)
(* stale and are re-evaluated at the new draw.  The optimiser updates the  *)
(* variational parameters phi in place and then fires their change events. *)
(*                                                                         *)
(* Abstract state: draws and parameter versions are numbered; a cache      *)
(* remembers the draw (and version of phi) it was computed at.             *)
(*   Paired:  a returned value was computed from log p and log q at the    *)
(*            same draw, which is the draw stored in x, drawn from the     *)
(*            current phi, with log q computed under the current phi       *)
(*   Fresh:   every evaluation request made a new draw                     *)
(*   Shaped:  the draw has the requested sample shape                      *)
(***************************************************************************)
EXTENDS Naturals, TLC

CONSTANTS Shapes,        \* sample shapes that a request may name (model values / strings); "default" is the object's own
          MaxDraws, MaxPhi,
          AlwaysFresh    \* TRUE: objectives never serve a request from the CallableModel cache (code after the fix)

VARIABLES phi,           \* version of the variational parameters
          x,             \* [draw, phi, shape]: what is stored in the shared parameter (draw 0: the initial value)
          next,          \* number of draws made so far
          pc, qc,        \* caches of the joint and of the variational density: [valid, draw, phi]
          oc,            \* cache of the objective: [valid, draw, pdraw, qdraw, qphi, xphi, shape]
          ret            \* what the last request returned (history variable): oc's fields + [fresh, phinow, asked]

vars == <<phi, x, next, pc, qc, oc, ret>>
None == [valid |-> FALSE, draw |-> 0, pdraw |-> 0, qdraw |-> 0, qphi |-> 0, xphi |-> 0, shape |-> "none"]
NoRet == [called |-> FALSE, fresh |-> FALSE, draw |-> 0, pdraw |-> 0, qdraw |-> 0, qphi |-> 0, xphi |-> 0, shape |-> "none",
          phinow |-> 0, xnow |-> 0, asked |-> "none"]

Init == /\ phi = 0 /\ next = 0
        /\ x = [draw |-> 0, phi |-> 0, shape |-> "init"]
        /\ pc = [valid |-> FALSE, draw |-> 0, phi |-> 0]
        /\ qc = [valid |-> FALSE, draw |-> 0, phi |-> 0]
        /\ oc = None /\ ret = NoRet

\* writing x fires its listeners: p and q become stale, their model-changed events reach the objective
WriteX(d, sh) == /\ x' = [draw |-> d, phi |-> phi, shape |-> sh]
                 /\ next' = d

\* objective(samples = sh): sh = "default" uses the object's own sample shape
Request(sh) ==
    /\ next < MaxDraws
    /\ IF oc.valid /\ ~AlwaysFresh
       THEN /\ ret' = [called |-> TRUE, fresh |-> FALSE, draw |-> oc.draw, pdraw |-> oc.pdraw, qdraw |-> oc.qdraw, qphi |-> oc.qphi,
                       xphi |-> oc.xphi, shape |-> oc.shape, phinow |-> phi, xnow |-> x.draw, asked |-> sh]
            /\ UNCHANGED <<phi, x, next, pc, qc, oc>>
       ELSE LET d == next + 1 IN
            /\ WriteX(d, sh)                                           \* q.rsample(samples) / q.sample(samples)
            /\ qc' = [valid |-> TRUE, draw |-> d, phi |-> phi]         \* log_q = self.q()
            /\ pc' = [valid |-> TRUE, draw |-> d, phi |-> phi]         \* log_p = self.p()
            /\ oc' = [valid |-> TRUE, draw |-> d, pdraw |-> d, qdraw |-> d, qphi |-> phi, xphi |-> phi, shape |-> sh]
            /\ ret' = [called |-> TRUE, fresh |-> TRUE, draw |-> d, pdraw |-> d, qdraw |-> d, qphi |-> phi, xphi |-> phi, shape |-> sh,
                       phinow |-> phi, xnow |-> d, asked |-> sh]
            /\ UNCHANGED phi

\* optim/optimizer.py: optimizer.step() changes phi in place, then every parameter fires
Step == /\ phi < MaxPhi
        /\ phi' = phi + 1
        /\ qc' = [qc EXCEPT !.valid = FALSE]            \* q listens to its parameters
        /\ oc' = [oc EXCEPT !.valid = FALSE]            \* q's model-changed event reaches the objective
        /\ UNCHANGED <<x, next, pc, ret>>

\* Optimizer._run with `distributions`, a sampler, or user code: q.sample(shape) outside a request
Sample(sh) == /\ next < MaxDraws
              /\ WriteX(next + 1, sh)
              /\ pc' = [pc EXCEPT !.valid = FALSE] /\ qc' = [qc EXCEPT !.valid = FALSE] /\ oc' = [oc EXCEPT !.valid = FALSE]
              /\ UNCHANGED <<phi, ret>>

\* a logger or a convergence diagnostic evaluates the joint / the variational density
EvalP == /\ ~pc.valid /\ pc' = [valid |-> TRUE, draw |-> x.draw, phi |-> phi] /\ UNCHANGED <<phi, x, next, qc, oc, ret>>
EvalQ == /\ ~qc.valid /\ qc' = [valid |-> TRUE, draw |-> x.draw, phi |-> phi] /\ UNCHANGED <<phi, x, next, pc, oc, ret>>

Next == \/ \E sh \in Shapes : Request(sh)
        \/ Step
        \/ \E sh \in Shapes : Sample(sh)
        \/ EvalP \/ EvalQ
Spec == Init /\ [][Next]_vars

---------------------------------------------------------------------------
Paired == ret.called => /\ ret.pdraw = ret.draw /\ ret.qdraw = ret.draw       \* p and q at the same draw
                        /\ ret.draw = ret.xnow                                 \* which is the one stored in x
                        /\ ret.qphi = ret.phinow /\ ret.xphi = ret.phinow      \* drawn from, and scored under, the current phi
Fresh == ret.called => ret.fresh
Shaped == ret.called => ret.shape = ret.asked
\* caches never claim validity for a draw or a version that is not the current one
CachesCurrent == /\ pc.valid => pc.draw = x.draw
                 /\ qc.valid => qc.draw = x.draw /\ qc.phi = phi
                 /\ oc.valid => oc.draw = x.draw /\ oc.qphi = phi
View == <<phi, x, next, pc, qc, oc>>
=============================================================================
