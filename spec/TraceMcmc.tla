------------------------------ MODULE TraceMcmc ------------------------------
(***************************************************************************)
(* C15, code -> spec.  Validates transitions recorded from real MCMC.run   *)
(* executions (hook records + harness measurements) against Mcmc.tla.      *)
(* One JSON record per iteration; the record is stepped through the phase  *)
(* actions of Mcmc (Select, Propose, SkipInfinite / EvalProposed, Decide,  *)
(* Accept / Reject, Log, Tune), each bound to the logged fields.           *)
(*                                                                         *)
(* The validation is total: a record that does not satisfy a clause does   *)
(* not block the trace; the first failing clause is stored in `fail' and   *)
(* reported with the record number (VERDICT line), and the rest of the     *)
(* trace is still stepped with the logged values.                          *)
(*   clause names "C_..."   : a clause of the property is violated         *)
(*   clause names "bind:..." : the recorded run is not a behaviour of the  *)
(*                             loop as specified (model drift)             *)
(***************************************************************************)
EXTENDS Mcmc, Sequences, Json, IOUtils

VARIABLES tid, l, fail, failAt

Traces == JsonDeserialize(IOEnv.TRACE_FILE)
tvars == <<vars, tid, l, fail, failAt>>

Ev == Traces[tid][l]
First(cands) ==           \* first failing clause of a sequence of <<name, holds>>
    LET bad == SelectSeq(cands, LAMBDA c : ~c[2]) IN IF bad = <<>> THEN "" ELSE bad[1][1]
Note(cands) == /\ fail' = IF fail # "" THEN fail ELSE First(cands)
               /\ failAt' = IF fail # "" \/ First(cands) = "" THEN failAt ELSE l
Keep == UNCHANGED <<tid, l>>

TInit == /\ tid \in 1..Len(Traces) /\ l = 1 /\ fail = "" /\ failAt = 0
         /\ pc = "select" /\ iter = 1 /\ op = Traces[tid][1].op
         /\ state = Traces[tid][1].sBefore /\ lpCur = Traces[tid][1].lpCarried
         /\ saved = state /\ prop = state /\ hast = "finite" /\ lpProp = 0
         /\ below = FALSE /\ accepted = FALSE
         /\ tuning = [o \in Ops |-> 0] /\ accRel = "equal"
         /\ logged = <<state, Target[state]>>

More == l <= Len(Traces[tid])

TSelect == /\ More /\ pc = "select"
           /\ Note(<< <<"bind:state-at-select", state = Ev.sBefore>>,
                      <<"bind:carried-density", lpCur = Ev.lpCarried>>,
                      <<"C_CarriedIsTarget", C_CarriedIsTarget(Ev.sBefore, Ev.lpCarried)>> >>)
           /\ op' = Ev.op /\ state' = Ev.sBefore /\ lpCur' = Ev.lpCarried
           /\ pc' = "propose" /\ Keep
           /\ UNCHANGED <<iter, saved, prop, hast, lpProp, below, accepted, tuning, accRel, logged>>

TPropose == /\ More /\ pc = "propose"
            /\ saved' = state /\ prop' = Ev.sProp /\ state' = Ev.sProp
            /\ hast' = Ev.hastKind
            /\ Note(<< <<"C_HastingsRatio", Ev.hastOK>> >>)
            /\ pc' = IF Ev.hastKind = "inf" THEN "skip" ELSE "eval"
            /\ Keep /\ UNCHANGED <<iter, op, lpCur, lpProp, below, accepted, tuning, accRel, logged>>

TSkip == /\ More /\ pc = "skip"
         /\ Note(<< <<"bind:skip-not-accepted", ~Ev.accepted>> >>)
         /\ accepted' = Ev.accepted /\ accRel' = Ev.accRel /\ lpProp' = 0
         /\ pc' = "apply" /\ Keep
         /\ UNCHANGED <<iter, op, state, lpCur, saved, prop, hast, below, tuning, logged>>

TEval == /\ More /\ pc = "eval"
         /\ lpProp' = Ev.lpProp
         /\ Note(<< <<"C_ProposedIsTarget", C_ProposedIsTarget(prop, Ev.lpProp)>> >>)
         /\ pc' = "decide" /\ Keep
         /\ UNCHANGED <<iter, op, state, lpCur, saved, prop, hast, below, accepted, tuning, accRel, logged>>

TDecide == /\ More /\ pc = "decide"
           /\ below' = Ev.shouldAccept /\ accepted' = Ev.accepted /\ accRel' = Ev.accRel
           /\ Note(<< <<"C_Decision", C_Decision(Ev.accepted, Ev.shouldAccept)>>,
                      <<"C_NonFiniteNeverAccepted", Ev.lpProp = 0 => ~Ev.accepted>> >>)
           /\ pc' = "apply" /\ Keep
           /\ UNCHANGED <<iter, op, state, lpCur, saved, prop, hast, lpProp, tuning, logged>>

TAccept == /\ More /\ pc = "apply" /\ accepted
           /\ lpCur' = Ev.lpAfter /\ state' = Ev.sAfter
           /\ Note(<< <<"bind:accept-keeps-proposal", Ev.sAfter = prop>>,
                      <<"bind:accept-carries-proposed-density", Ev.lpAfter = lpProp>> >>)
           /\ pc' = "log" /\ Keep
           /\ UNCHANGED <<iter, op, saved, prop, hast, lpProp, below, accepted, tuning, accRel, logged>>

TReject == /\ More /\ pc = "apply" /\ ~accepted
           /\ state' = Ev.sAfter /\ lpCur' = Ev.lpAfter
           /\ Note(<< <<"C_RejectRestores", C_RejectRestores(Ev.sAfter, saved)>>,
                      <<"bind:reject-keeps-carried-density", Ev.lpAfter = lpCur>> >>)
           /\ pc' = "log" /\ Keep
           /\ UNCHANGED <<iter, op, saved, prop, hast, lpProp, below, accepted, tuning, accRel, logged>>

TLog == /\ More /\ pc = "log"
        /\ logged' = IF Ev.logged THEN <<Ev.logState, Ev.logLp>> ELSE logged
        /\ Note(<< <<"C_LogConsistent", Ev.logged => C_LogConsistent(<<Ev.logState, Ev.logLp>>)>>,
                   <<"bind:logged-state-is-current", Ev.logged => Ev.logState = state>> >>)
        /\ pc' = "tune" /\ Keep
        /\ UNCHANGED <<iter, op, state, lpCur, saved, prop, hast, lpProp, below, accepted, tuning, accRel>>

TTune == /\ More /\ pc = "tune"
         /\ tuning' = [tuning EXCEPT ![op] = Ev.boldAfter]
         /\ Note(<< <<"C_Tune", Ev.judgeTune => C_Tune(accRel, Ev.boldBefore, Ev.boldAfter, 1)>>,
                    <<"bind:acceptance-probability", Ev.accProbOK>> >>)
         /\ iter' = iter + 1 /\ pc' = "select"
         /\ l' = l + 1 /\ tid' = tid
         /\ (l + 1 > Len(Traces[tid]) => PrintT(<<"VERDICT", tid, fail', failAt'>>))
         /\ UNCHANGED <<op, state, lpCur, saved, prop, hast, lpProp, below, accepted, accRel, logged>>

TNext == TSelect \/ TPropose \/ TSkip \/ TEval \/ TDecide \/ TAccept \/ TReject \/ TLog \/ TTune
TSpec == TInit /\ [][TNext]_tvars
=============================================================================
