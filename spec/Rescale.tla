------------------------------ MODULE Rescale ------------------------------
(***************************************************************************)
(* C03.  When does TreeLikelihoodModel switch to rescaled pruning, and is  *)
(* every reported value accurate?  Floating point is abstracted to the     *)
(* class of the smallest per-site likelihood of an evaluation:             *)
(*    "normal"     representable as a normal double                        *)
(*    "subnormal"  in [smallest subnormal, smallest normal): representable *)
(*                 with fewer than 53 significant bits                      *)
(*    "zero"       below the smallest subnormal: the plain kernel gives 0  *)
(* An evaluation is single or batched (a set of classes, one per sample).  *)
(* calculate_with_tip_partials / _states: plain kernel unless the sticky   *)
(* flag is set; Policy says what triggers the switch:                      *)
(*    "inf"        any(isinf(log_p))               (pinned commit)         *)
(*    "subnormal"  ... or any site likelihood below the smallest normal    *)
(* Results: "exact" | "lossy" (finite but computed from subnormals) |      *)
(* "-inf" is never returned when the true value is finite.                 *)
(***************************************************************************)
EXTENDS Naturals, FiniteSets, TLC

CONSTANTS Policy, MaxEvals
VARIABLES rescale, n, last    \* last = result classes of the last evaluation (set)

Classes == {"normal", "subnormal", "zero"}
Batches == (SUBSET Classes) \ {{}}

Triggers(B) == "zero" \in B \/ (Policy = "subnormal" /\ "subnormal" \in B)

Plain(c) == CASE c = "normal" -> "exact" [] c = "subnormal" -> "lossy" [] c = "zero" -> "-inf"

Init == rescale = FALSE /\ n = 0 /\ last = {}

Eval(B) == /\ n < MaxEvals /\ n' = n + 1
           /\ IF rescale THEN last' = {"exact"} /\ rescale' = TRUE                         \* rescaled kernel
              ELSE IF Triggers(B) THEN last' = {"exact"} /\ rescale' = TRUE                \* switch + safe / rescaled pass
              ELSE last' = {Plain(c) : c \in B} /\ rescale' = FALSE

Next == \E B \in Batches : Eval(B)
Spec == Init /\ [][Next]_<<rescale, n, last>>

Accurate == "lossy" \notin last
FiniteIfTrue == "-inf" \notin last
Sticky == [][rescale => rescale']_<<rescale, n, last>>
=============================================================================
