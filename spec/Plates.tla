------------------------------- MODULE Plates -------------------------------
(***************************************************************************)
(* Growth of the specification (extends Loader.tla, C13): plate expansion  *)
(* of core/utils.py:expand_plates as a program transformation.             *)
(*                                                                         *)
(* A document is a list of items.  An item is an object                    *)
(*     [kind |-> "obj", id |-> <<name, starred>>, kids |-> list of items]  *)
(* or a plate [kind |-> "plate", n |-> k, body |-> object] standing for k  *)
(* copies of its body, the i-th copy having every starred id inside it     *)
(* suffixed with i.                                                        *)
(*                                                                         *)
(* Req: the obvious recursive meaning - every plate, at any depth, also    *)
(* inside the copies of another plate, is replaced by its copies.          *)
(* Impl: the code - a list is walked with a running index (enumerate)      *)
(* while plates are replaced IN PLACE by their (unexpanded) copies: the    *)
(* element that lands on the current index is never visited, and when a    *)
(* plate has no copy the next element slides under the index and is        *)
(* skipped.                                                                *)
(* `Same` compares them; TLC enumerates all documents up to a small size   *)
(* and the harness replays every disagreement on the real function.        *)
(***************************************************************************)
EXTENDS Naturals, Sequences, TLC

CONSTANTS MaxItems, MaxN, Emit

VARIABLES doc, done
vars == <<doc, done>>

Obj(name, star, kids) == [kind |-> "obj", id |-> <<name, star, <<>>>>, kids |-> kids]
Plate(n, body) == [kind |-> "plate", n |-> n, body |-> body]

\* ids: <<name, starred, suffixes>>; renaming appends the copy index to starred ids and un-stars them (id[:-1] + value)
RECURSIVE Rename(_, _)
Rename(item, i) ==
    IF item.kind = "obj"
    THEN [item EXCEPT !.id = IF item.id[2] THEN <<item.id[1], FALSE, Append(item.id[3], i)>> ELSE item.id,
                      !.kids = [k \in DOMAIN item.kids |-> Rename(item.kids[k], i)]]
    ELSE [item EXCEPT !.body = Rename(item.body, i)]

RECURSIVE Cat(_)
Cat(ss) == IF ss = <<>> THEN <<>> ELSE Head(ss) \o Cat(Tail(ss))

---------------------------------------------------------------------------
RECURSIVE ReqList(_), ReqItem(_)
ReqItem(item) == IF item.kind = "obj" THEN <<[item EXCEPT !.kids = ReqList(item.kids)]>>
                 ELSE Cat([i \in 1..item.n |-> ReqItem(Rename(item.body, i - 1))])
ReqList(l) == Cat([k \in DOMAIN l |-> ReqItem(l[k])])

---------------------------------------------------------------------------
\* the in-place walk: state <<list, index>>
RECURSIVE ImplList(_), Walk(_, _), ImplVisit(_)
\* visiting an element that is not a plate: recurse into its children
ImplVisit(item) == IF item.kind = "obj" THEN [item EXCEPT !.kids = ImplList(item.kids)] ELSE item
Walk(l, i) ==
    IF i > Len(l) THEN l
    ELSE LET e == l[i] IN
         IF e.kind = "plate"
         THEN LET clones == [j \in 1..e.n |-> Rename(e.body, j - 1)]
                  l2 == SubSeq(l, 1, i - 1) \o clones \o SubSeq(l, i + 1, Len(l))
              IN  Walk(l2, i + 1)                       \* the index moves on: position i (first clone, or the next element) is not visited
         ELSE Walk([l EXCEPT ![i] = ImplVisit(e)], i + 1)
ImplList(l) == Walk(l, 1)

---------------------------------------------------------------------------
\* documents: lists of up to MaxItems items, objects with up to MaxItems children (one level), plates over such objects
Leaves == {Obj(nm, st, <<>>) : nm \in {"a"}, st \in BOOLEAN}
Seqs(S, n) == UNION {[1..k -> S] : k \in 0..n}
Level1 == Leaves \cup {Plate(k, b) : k \in 0..MaxN, b \in Leaves}
Objs2 == {Obj("b", st, ks) : st \in BOOLEAN, ks \in Seqs(Level1, MaxItems) \ {<<>>}}
Level2 == Level1 \cup Objs2 \cup {Plate(k, b) : k \in 0..MaxN, b \in Objs2}

Init == doc \in Seqs(Level2, MaxItems) /\ done = FALSE
Same == ImplList(doc) = ReqList(doc)
Step == /\ ~done /\ done' = TRUE /\ UNCHANGED doc
        /\ (Emit => PrintT(<<"DOC", doc, ImplList(doc), ReqList(doc)>>))
Spec == Init /\ [][Step]_vars
Agree == done => Same
=============================================================================
