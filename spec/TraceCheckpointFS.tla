------------------------- MODULE TraceCheckpointFS -------------------------
(***************************************************************************)
(* C18, code -> spec.  Validates file-system call sequences recorded from  *)
(* the real checkpoint writers (with real process death at a chosen call)  *)
(* against CheckpointFS.  Two modes:                                       *)
(*   "protocol" - every event must be the writer action of CheckpointFS    *)
(*                that the code claims to be executing (binds the program);*)
(*   "generic"  - every event must be explained by the POSIX semantics     *)
(*                (FsOpen ...), whatever program produced it.              *)
(* In both modes the directory observed after a crash / at completion must *)
(* equal the model's fs, and the property invariants of CheckpointFS are   *)
(* evaluated in every state of every trace.                                *)
(* Many traces are validated per TLC run: tid selects the trace.           *)
(***************************************************************************)
EXTENDS CheckpointFS, Sequences, Json, IOUtils

CONSTANT Mode

VARIABLES tid, l

Traces == JsonDeserialize(IOEnv.TRACE_FILE)

tvars == <<vars, tid, l>>

Ev == Traces[tid][l]
More == l <= Len(Traces[tid])
Step == /\ l' = l + 1 /\ tid' = tid
        /\ (l + 1 > Len(Traces[tid]) => PrintT(<<"ACCEPT", tid>>))

Obs(o) == [f \in Files |-> IF f \in DOMAIN o THEN o[f] ELSE Absent]

TInit == /\ Init
         /\ tid \in 1..Len(Traces) /\ l = 1

(* protocol mode: the writer's own actions *)
PStart == Ev.op = "start" /\ Start /\ v' = Ev.v
POpen  == Ev.op = "open"  /\ Open  /\ target = Ev.a
PWrite == Ev.op = "write" /\ Write /\ target = Ev.a
PClose == Ev.op = "close" /\ Close /\ target = Ev.a
PRen   == Ev.op = "rename" /\ \/ (Ren1 /\ Ev.a = "name" /\ Ev.b = "old")
                              \/ (Ren2 /\ Ev.a = "new" /\ Ev.b = "name")
                              \/ (Replace /\ Ev.a = "new" /\ Ev.b = "name")
PRm    == Ev.op = "remove" /\ Rm /\ Ev.a = "old"
PCrash == Ev.op = "crash" /\ Crash /\ fs = Obs(Ev.obs)
PDone  == Ev.op = "done" /\ pc = "idle" /\ fs = Obs(Ev.obs) /\ good = v /\ UNCHANGED vars

PNext == More /\ Step /\ (PStart \/ POpen \/ PWrite \/ PClose \/ PRen \/ PRm \/ PCrash \/ PDone)

(* generic mode: POSIX semantics only *)
Keep == UNCHANGED <<pc, target>>
GStart == Ev.op = "start" /\ v' = Ev.v /\ UNCHANGED <<fs, good, crashed>> /\ Keep
GOpen  == Ev.op = "open"  /\ FsOpen(Ev.a) /\ UNCHANGED <<v, good, crashed>> /\ Keep
GWrite == Ev.op = "write" /\ FsWrite(Ev.a) /\ UNCHANGED <<v, good, crashed>> /\ Keep
GClose == Ev.op = "close" /\ FsClose(Ev.a, v) /\ UNCHANGED <<v, good, crashed>> /\ Keep
GRen   == Ev.op = "rename" /\ FsRename(Ev.a, Ev.b) /\ UNCHANGED <<v, good, crashed>> /\ Keep
GRm    == Ev.op = "remove" /\ FsRemove(Ev.a) /\ UNCHANGED <<v, good, crashed>> /\ Keep
GCrash == Ev.op = "crash" /\ fs = Obs(Ev.obs) /\ crashed' = crashed + 1 /\ UNCHANGED <<fs, v, good>> /\ Keep
GDone  == Ev.op = "done" /\ fs = Obs(Ev.obs) /\ good' = v /\ UNCHANGED <<fs, v, crashed>> /\ Keep

GNext == More /\ Step /\ (GStart \/ GOpen \/ GWrite \/ GClose \/ GRen \/ GRm \/ GCrash \/ GDone)

TNext == IF Mode = "protocol" THEN PNext ELSE GNext
TSpec == TInit /\ [][TNext]_tvars
=============================================================================
