---------------------------- MODULE VarObjective ----------------------------
(***************************************************************************)
(* C14 (reduction layer).  The sample-dimension reductions of the          *)
(* variational objectives in variational/kl.py, renyi.py and chi.py,       *)
(* transcribed operation by operation over SYMBOLIC log densities, against *)
(* the mathematical definition of each objective, and the tightness        *)
(* identity: when log p(z_s) - log q(z_s) = C for every sample, every      *)
(* objective must return exactly C.                                        *)
(*                                                                         *)
(* A value is a linear form: a set of <<basis, coefficient>> pairs with    *)
(* rational coefficients (no zero coefficient, one pair per basis).  Basis *)
(* elements are uniform 5-tuples <<kind, i, j, s1, s2>>:                   *)
(*   <<"W", n, k, {}, {}>>   log p - log q at sample (n, k)                *)
(*   <<"Q", n, k, {}, {}>>   log q at sample (n, k)                        *)
(*   <<"H", 0, 0, {}, {}>>   the analytic entropy of q                     *)
(*   <<"C", 0, 0, {}, {}>>   the log marginal likelihood                   *)
(*   <<"M", 0, 0, {}, {}>>   the stabilising shift of chi.py (max log w)   *)
(*   <<"logn", m, 0, {}, {}>>  log of the integer m >= 2                   *)
(*   <<"lse", 0, 0, bag, {}>>  log sum exp of a bag of forms (the first    *)
(*                           summand has been pulled out: normal form that *)
(*                           makes logsumexp shift-invariant)              *)
(*   <<"ex", 0, 0, a, b>>    exp(a) * b                                    *)
(* logsumexp of m identical forms e is e + log m: nonlinear operations     *)
(* applied to sample-independent inputs stay exact, anything else remains  *)
(* a symbolic term, so Impl = Req is decided structurally.                 *)
(*                                                                         *)
(* A sample shape [S] is a matrix with one row (dims = 1), [N, K] one with *)
(* N rows (dims = 2): reductions over dim -1 run along a row, and the      *)
(* reduction that follows (.mean(-1) / .mean()) runs over the rows.        *)
(***************************************************************************)
EXTENDS Rat, FiniteSets, TLC, SequencesExt

CONSTANTS Objectives,        \* subset of {"elbo", "elbo-entropy", "vr", "cubo", "klpq"}
          MaxN, MaxK,        \* sample shapes [K] (dims 1) and [N, K] (dims 2)
          Alphas,            \* orders of the Renyi bound (rationals # 1)
          Orders,            \* orders of the chi bound (positive integers)
          Repaired,          \* TRUE: the code after the two "fix:" commits (rows are averaged); FALSE: the code as found
          Emit

VARIABLES obj, dims, N, K, par, done
vars == <<obj, dims, N, K, par, done>>

---------------------------------------------------------------------------
(* linear forms *)
B(kind, i, j) == <<kind, i, j, {}, {}>>
Basis(b) == {<<b, ROne>>}
Zero == {}
FGet(f, b) == IF \E p \in f : p[1] = b THEN (CHOOSE p \in f : p[1] = b)[2] ELSE RZero
FAdd(f, g) == LET bs == {p[1] : p \in f} \cup {p[1] : p \in g}
                  all == {<<b, RAdd(FGet(f, b), FGet(g, b))>> : b \in bs}
              IN  {p \in all : ~RIsZero(p[2])}
FScale(r, f) == IF RIsZero(r) THEN Zero ELSE {<<p[1], RMul(r, p[2])>> : p \in f}
FSub(f, g) == FAdd(f, FScale(<<-1, 1>>, g))
FSum(seq) == FoldLeft(LAMBDA acc, e : FAdd(acc, e), Zero, seq)
FMean(seq) == FScale(<<1, Len(seq)>>, FSum(seq))
LogN(m) == IF m = 1 THEN Zero ELSE Basis(B("logn", m, 0))
\* logsumexp of a sequence of forms
Lse(seq) == LET e0 == seq[1]
                diffs == [i \in DOMAIN seq |-> FSub(seq[i], e0)]
                distinct == {diffs[i] : i \in DOMAIN seq}
                bag == {<<d, Cardinality({i \in DOMAIN seq : diffs[i] = d})>> : d \in distinct}
            IN  IF distinct = {Zero} THEN FAdd(e0, LogN(Len(seq)))
                ELSE FAdd(e0, Basis(<<"lse", 0, 0, bag, {}>>))
\* exp(a) * b
Ex(a, b) == IF a = Zero THEN b
            ELSE IF Cardinality(a) = 1 /\ (CHOOSE p \in a : TRUE)[1][1] = "logn" /\ (CHOOSE p \in a : TRUE)[2] = <<-1, 1>>
                 THEN FScale(<<1, (CHOOSE p \in a : TRUE)[1][2]>>, b)
            ELSE Basis(<<"ex", 0, 0, a, b>>)

---------------------------------------------------------------------------
(* inputs: matrices [1..N -> [1..K -> form]] *)
Mat(f(_, _)) == [n \in 1..N |-> [k \in 1..K |-> f(n, k)]]
Flat(m) == [i \in 1..(N * K) |-> m[((i - 1) \div K) + 1][((i - 1) % K) + 1]]     \* row-major, as torch
Rows(v) == [n \in 1..N |-> v[n]]
WGen == Mat(LAMBDA n, k : Basis(B("W", n, k)))          \* arbitrary draws
WPost == Mat(LAMBDA n, k : Basis(B("C", 0, 0)))         \* q is the posterior: log p - log q = C at every draw
QMat == Mat(LAMBDA n, k : Basis(B("Q", n, k)))
H == Basis(B("H", 0, 0))
MaxW == Basis(B("M", 0, 0))

---------------------------------------------------------------------------
(* the code, operation by operation; w is the matrix log p - log q, q the matrix log q *)
\* kl.py ELBO._call: len(samples) = 2 -> logsumexp(log_p - log_q, -1) - log(K), .mean(); else (p - q).mean()
ImplElbo(w) == IF dims = 2 THEN FMean([n \in 1..N |-> FSub(Lse(w[n]), LogN(K))])
               ELSE FMean(Flat(w))
\* entropy = True and len(samples) # 2 -> p().mean() + q.entropy().sum()
ImplElboEntropy(w, q) == IF dims = 2 THEN ImplElbo(w)
                         ELSE FAdd(FMean(Flat([n \in 1..N |-> [k \in 1..K |-> FAdd(w[n][k], q[n][k])]])), H)
\* renyi.py VR._call: log_w = (1 - alpha)(p - q); logsumexp(log_w, -1) - log(shape[-1]); .mean(-1) / (1 - alpha)
\* (as found: .sum(-1))
ImplVR(w, alpha) == LET oma == RSub(ROne, alpha)
                        rows == [n \in 1..N |-> FSub(Lse([k \in 1..K |-> FScale(oma, w[n][k])]), LogN(K))]
                    IN  FScale(RDiv(ROne, oma), IF Repaired THEN FMean(rows) ELSE FSum(rows))
\* chi.py CUBO._call: log_max = max(log_w); exp(log_w - log_max) ** n; log(mean) / n + log_max
ImplCUBO(w, order) == LET flat == Flat(w)
                          pw == [i \in DOMAIN flat |-> FScale(RInt(order), FSub(flat[i], MaxW))]
                      IN  FAdd(FScale(<<1, order>>, FSub(Lse(pw), LogN(N * K))), MaxW)
\* kl.py KLpq._call: log_w_norm = log_w - logsumexp(log_w, -1, keepdim); sum(exp(log_w_norm) * log_w, -1).mean()
\* (as found: no keepdim, so the [N] vector of row normalisers is broadcast along the LAST dimension of [N, K]:
\*  element (i, j) is normalised by row j when N = K, the shapes are incompatible unless N = K, N = 1 or K = 1,
\*  and everything is summed)
ImplKLpq(w) ==
    IF Repaired THEN FMean([n \in 1..N |-> LET l == Lse(w[n]) IN FSum([k \in 1..K |-> Ex(FSub(w[n][k], l), w[n][k])])])
    ELSE LET l == [n \in 1..N |-> Lse(w[n])] IN
         IF N = 1 \/ N = K THEN FSum(Flat([n \in 1..N |-> [k \in 1..K |-> Ex(FSub(w[n][k], l[IF N = 1 THEN 1 ELSE k]), w[n][k])]]))
         ELSE IF K = 1 THEN FSum([i \in 1..(N * N) |-> LET a == ((i - 1) \div N) + 1  b == ((i - 1) % N) + 1 IN Ex(FSub(w[a][1], l[b]), w[a][1])])
         ELSE Basis(B("error", 0, 0))

Impl(w) == CASE obj = "elbo" -> ImplElbo(w)
             [] obj = "elbo-entropy" -> ImplElboEntropy(w, QMat)
             [] obj = "vr" -> ImplVR(w, par)
             [] obj = "cubo" -> ImplCUBO(w, par)
             [] obj = "klpq" -> ImplKLpq(w)

---------------------------------------------------------------------------
(* the definitions *)
\* E_q[log p - log q], one estimate per row, averaged; the K-sample importance-weighted bound for 2-d shapes
ReqElbo(w) == IF dims = 2 THEN FMean([n \in 1..N |-> FSub(Lse(w[n]), LogN(K))])
              ELSE FMean(Flat(w))
ReqElboEntropy(w, q) == IF dims = 2 THEN ReqElbo(w)
                        ELSE FAdd(FAdd(FMean(Flat(w)), FMean(Flat(q))), H)        \* E[log p] estimated + exact entropy
\* Li & Turner: 1/(1-a) log 1/K sum_k w_k^(1-a), one estimate per row, averaged
ReqVR(w, alpha) == LET oma == RSub(ROne, alpha) IN
    FMean([n \in 1..N |-> FScale(RDiv(ROne, oma), FSub(Lse([k \in 1..K |-> FScale(oma, w[n][k])]), LogN(K)))])
\* Dieng et al.: 1/n log mean w^n over every draw
ReqCUBO(w, order) == LET flat == Flat(w) IN
    FScale(<<1, order>>, FSub(Lse([i \in DOMAIN flat |-> FScale(RInt(order), flat[i])]), LogN(N * K)))
\* self-normalised importance sampling: sum_k w~_k log w_k per row, averaged
ReqKLpq(w) == FMean([n \in 1..N |-> LET l == Lse(w[n]) IN FSum([k \in 1..K |-> Ex(FSub(w[n][k], l), w[n][k])])])

Req(w) == CASE obj = "elbo" -> ReqElbo(w)
            [] obj = "elbo-entropy" -> ReqElboEntropy(w, QMat)
            [] obj = "vr" -> ReqVR(w, par)
            [] obj = "cubo" -> ReqCUBO(w, par)
            [] obj = "klpq" -> ReqKLpq(w)

---------------------------------------------------------------------------
C == Basis(B("C", 0, 0))
\* what "exact at the posterior" means for each objective: the analytic-entropy variant replaces the Monte-Carlo
\* entropy estimate -mean(log q) by H, so it equals C + mean(log q) + H
TightTarget == IF obj = "elbo-entropy" /\ dims = 1 THEN FAdd(FAdd(C, FMean(Flat(QMat))), H) ELSE C
Tight == Impl(WPost) = TightTarget
Agree == Impl(WGen) = Req(WGen)

TightInv == done => Tight
AgreeInv == done => Agree

Params == CASE obj = "vr" -> Alphas [] obj = "cubo" -> Orders [] OTHER -> {0}
Init == /\ obj \in Objectives /\ dims \in {1, 2}
        /\ N \in 1..MaxN /\ K \in 1..MaxK /\ (dims = 1 => N = 1)
        /\ par \in Params
        /\ done = FALSE
Compute == /\ ~done /\ done' = TRUE /\ UNCHANGED <<obj, dims, N, K, par>>
           /\ (Emit => PrintT(<<"CASE", [obj |-> obj, dims |-> dims, N |-> N, K |-> K, par |-> par,
                                         impl |-> Impl(WGen), tight |-> Tight, agree |-> Agree]>>))
Spec == Init /\ [][Compute]_vars
=============================================================================
