------------------------------ MODULE Leapfrog ------------------------------
(***************************************************************************)
(* C16.  The leapfrog integrator of inference/hmc/integrator.py on a       *)
(* quadratic potential U(q) = q'Aq / 2 (A symmetric positive definite,     *)
(* small integers), mass matrix M given through its inverse W (diagonal or *)
(* dense, dyadic), step size eps = 1/2^k, L steps - exact rationals:       *)
(*     p := p - eps/2 * A q                     (half kick)                *)
(*     L times:  q := q + eps * W p ;  p := p - eps * A q                  *)
(*     p := p + eps/2 * A q                     (take half a kick back)    *)
(* Invariants on the lattice: Flow o Negate o Flow = Negate (reversible),  *)
(* the 2d x 2d matrix of the (linear) map has determinant 1 (volume), and  *)
(* the Hastings term is K(p) - K(p') with K(p) = p'Wp / 2.                 *)
(* Every case is emitted with the exact end point for the harness.         *)
(***************************************************************************)
EXTENDS Rat, TLC, Json, FiniteSets, SequencesExt

CONSTANTS Cases, Emit          \* Cases: records [d, A, W, eps, L, q, p] (matrices as sequences of rows of rationals)
VARIABLES c, done

Idx(k) == 1..k
MatVec(M, v, d) == [i \in Idx(d) |-> RSumSeq([j \in Idx(d) |-> RMul(M[i][j], v[j])])]
Axpy(a, x, y, d) == [i \in Idx(d) |-> RAdd(RMul(a, x[i]), y[i])]          \* a*x + y

\* L full steps; FoldLeft keeps every intermediate state an evaluated value (TLC would otherwise
\* re-evaluate the lazily bound q, p of the previous step at every use: exponential in L)
Steps(k, q, p, cs) ==
    FoldLeft(LAMBDA acc, i : LET q1 == Axpy(cs.eps, MatVec(cs.W, acc[2], cs.d), acc[1], cs.d)
                             IN  <<q1, Axpy(RNeg(cs.eps), MatVec(cs.A, q1, cs.d), acc[2], cs.d)>>,
             <<q, p>>, [i \in 1..k |-> i])
Flow(q, p, cs) == LET half == RDiv(cs.eps, RInt(2))
                      p0 == Axpy(RNeg(half), MatVec(cs.A, q, cs.d), p, cs.d)
                      r == Steps(cs.L, q, p0, cs)
                  IN  <<r[1], Axpy(half, MatVec(cs.A, r[1], cs.d), r[2], cs.d)>>
Neg(v, d) == [i \in Idx(d) |-> RNeg(v[i])]
Kinetic(p, cs) == RDiv(RSumSeq([i \in Idx(cs.d) |-> RMul(p[i], MatVec(cs.W, p, cs.d)[i])]), RInt(2))
Potential(q, cs) == RDiv(RSumSeq([i \in Idx(cs.d) |-> RMul(q[i], MatVec(cs.A, q, cs.d)[i])]), RInt(2))

\* matrix of the linear map (q,p) -> (q',p'): columns = images of the unit vectors
Unit(k, n) == [i \in Idx(n) |-> IF i = k THEN ROne ELSE RZero]
Zero(n) == [i \in Idx(n) |-> RZero]
Column(k, cs) == LET r == IF k <= cs.d THEN Flow(Unit(k, cs.d), Zero(cs.d), cs) ELSE Flow(Zero(cs.d), Unit(k - cs.d, cs.d), cs)
                 IN  r[1] \o r[2]
\* (columns are computed once: TLC re-evaluates an operator at every textual use)
MapMatrix(cs) == LET cols == [j \in Idx(2 * cs.d) |-> Column(j, cs)]
                 IN  [i \in Idx(2 * cs.d) |-> [j \in Idx(2 * cs.d) |-> cols[j][i]]]
Inversions(pm, n) == Cardinality({<<a, b>> \in Idx(n) \X Idx(n) : a < b /\ pm[a] > pm[b]})
Det(M, n) == LET term(pm) == LET pr == RProdSeq([i \in Idx(n) |-> M[i][pm[i]]]) IN IF Inversions(pm, n) % 2 = 0 THEN pr ELSE RNeg(pr)
                 RECURSIVE sum(_)
                 sum(Q) == IF Q = {} THEN RZero ELSE LET x == CHOOSE y \in Q : TRUE IN RAdd(term(x), sum(Q \ {x}))
             IN  sum(Permutations(Idx(n)))

Init == c \in Cases /\ done = FALSE
Step == /\ ~done /\ done' = TRUE /\ UNCHANGED c
        /\ (Emit => LET r == Flow(c.q, c.p, c) IN
                    PrintT(<<"CASE", ToJson([case |-> c, q1 |-> r[1], p1 |-> r[2]])>>))
Spec == Init /\ [][Step]_<<c, done>>

Reversible == LET r == Flow(c.q, c.p, c)
                  b == Flow(r[1], Neg(r[2], c.d), c)
              IN  b[1] = c.q /\ b[2] = Neg(c.p, c.d)
VolumePreserving == c.det => LET M == MapMatrix(c) IN Det(M, 2 * c.d) = ROne

\* The integrator is a function of (target, q, p, eps, L, W) only - it carries nothing from one call to the next.  Potential with
\* location m: U(q) = (q - m)'A(q - m) / 2, kicks use A(q - m).  Calling it again, on the same objects, from where the previous
\* trajectory ended (q1) after ANOTHER operator has moved the target's location to m = q1 - q0 must give the first trajectory
\* translated by m; an integrator that remembers the last gradient gives something else.  The harness replays exactly this history.
Sub(x, y, d) == [i \in Idx(d) |-> RAdd(x[i], RNeg(y[i]))]
Add(x, y, d) == [i \in Idx(d) |-> RAdd(x[i], y[i])]
StepsLoc(k, q, p, cs, m) ==
    FoldLeft(LAMBDA acc, i : LET q1 == Axpy(cs.eps, MatVec(cs.W, acc[2], cs.d), acc[1], cs.d)
                             IN  <<q1, Axpy(RNeg(cs.eps), MatVec(cs.A, Sub(q1, m, cs.d), cs.d), acc[2], cs.d)>>,
             <<q, p>>, [i \in 1..k |-> i])
FlowLoc(q, p, cs, m) == LET half == RDiv(cs.eps, RInt(2))
                            p0 == Axpy(RNeg(half), MatVec(cs.A, Sub(q, m, cs.d), cs.d), p, cs.d)
                            r == StepsLoc(cs.L, q, p0, cs, m)
                        IN  <<r[1], Axpy(half, MatVec(cs.A, Sub(r[1], m, cs.d), cs.d), r[2], cs.d)>>
HistoryFree == LET r == Flow(c.q, c.p, c)
                   m == Sub(r[1], c.q, c.d)
                   s == FlowLoc(r[1], c.p, c, m)
               IN  s[1] = Add(r[1], m, c.d) /\ s[2] = r[2]
=============================================================================
