-------------------------------- MODULE Joint --------------------------------
(***************************************************************************)
(* C10.  The shape-dependent reduction of component log densities in       *)
(* distributions/joint_distribution.py: JointDistributionModel.log_prob,   *)
(* over provenance tensors: an element is the SET of atoms                 *)
(* <<component, index in the component's own log-density tensor>> that     *)
(* were added into it (sums are unions).                                   *)
(*                                                                         *)
(* A component is described by the shape of its log-density tensor and the *)
(* sample shape it reports; the joint's sample shape is the longest one.   *)
(* Transcription, branch by branch:                                        *)
(*   1 lp.shape = comp.sample_shape             -> unsqueeze(-1)           *)
(*   2 lp.shape = []                            -> unsqueeze(0)            *)
(*   3 lp has more dims than comp.sample_shape  -> view(first dims, -1).sum*)
(*   4 lp.shape[-1] # 1                         -> sum(-1, keepdim)        *)
(*   5 lp.dim() = 1                             -> expand(joint ss + (1,)) *)
(*   6 lp.dim() > 1 and joint ss = []           -> squeeze(0)              *)
(*   7 otherwise                                -> lp                      *)
(* then torch.cat(parts, -1).sum(-1), which requires equal leading shapes. *)
(* Requirement: the result has the joint sample shape and element s holds  *)
(* exactly the atoms of sample s of every batched component and all atoms  *)
(* of every unbatched one - or the evaluation fails with an error.         *)
(***************************************************************************)
EXTENDS Naturals, Sequences, FiniteSets, TLC, Json, SequencesExt

CONSTANTS Kinds,      \* set of component kinds: [lp : shape, ss : shape]  (shapes are sequences of naturals)
          MaxComps, Emit
VARIABLES comps, done

Indices(shape) == IF shape = <<>> THEN {<<>>} ELSE
    LET RECURSIVE idx(_)
        idx(k) == IF k = 0 THEN {<<>>} ELSE {Append(p, i) : p \in idx(k - 1), i \in 1..shape[k]}
    IN  idx(Len(shape))
\* a tensor: [shape, at] with at : Indices(shape) -> set of atoms, or the string "error"
Tensor(shape, f(_)) == [shape |-> shape, at |-> [i \in Indices(shape) |-> f(i)], err |-> FALSE]
Error == [shape |-> <<0>>, at |-> <<>>, err |-> TRUE]
Prefix(s, k) == SubSeq(s, 1, k)
IsPrefixOf(p, s) == Len(p) <= Len(s) /\ Prefix(s, Len(p)) = p

Lp(c) == Tensor(comps[c].lp, LAMBDA i : {<<c, i>>})
JointSS == LET lens == {Len(comps[c].ss) : c \in DOMAIN comps}
               mx == CHOOSE l \in lens : \A k \in lens : k <= l
               first == CHOOSE c \in DOMAIN comps : Len(comps[c].ss) = mx /\ \A d \in DOMAIN comps : Len(comps[d].ss) = mx => c <= d
           IN  comps[first].ss               \* max(..., key=len): the first of the longest

UnsqLast(t) == Tensor(Append(t.shape, 1), LAMBDA i : t.at[Prefix(i, Len(i) - 1)])
UnsqFirst(t) == Tensor(<<1>> \o t.shape, LAMBDA i : t.at[Tail(i)])
SumLastKeep(t) == LET n == Len(t.shape) IN
    Tensor(Append(Prefix(t.shape, n - 1), 1), LAMBDA i : UNION {t.at[Append(Prefix(i, n - 1), j)] : j \in 1..t.shape[n]})
ViewSum(t, k) == Tensor(Append(Prefix(t.shape, k), 1),
                        LAMBDA i : UNION {t.at[j] : j \in {x \in Indices(t.shape) : Prefix(x, k) = Prefix(i, k)}})
\* expand a tensor of shape <<1>> to shape target (broadcasting)
Expand1(t, target) == Tensor(target, LAMBDA i : t.at[<<1>>])
Squeeze0(t) == IF t.shape[1] = 1 THEN Tensor(Tail(t.shape), LAMBDA i : t.at[<<1>> \o i]) ELSE t

Part(c) ==
    LET lp == Lp(c)  ss == comps[c].ss  js == JointSS IN
    IF lp.shape = ss THEN UnsqLast(lp)
    ELSE IF lp.shape = <<>> THEN UnsqFirst(lp)
    ELSE IF Len(lp.shape) > Len(ss) THEN ViewSum(lp, Len(ss))
    ELSE IF lp.shape[Len(lp.shape)] # 1 THEN SumLastKeep(lp)
    ELSE IF Len(lp.shape) = 1 THEN Expand1(lp, Append(js, 1))
    ELSE IF Len(lp.shape) > 1 /\ js = <<>> THEN Squeeze0(lp)
    ELSE lp

\* torch.cat(parts, -1).sum(-1): all parts must agree on every dimension but the last
Result ==
    LET parts == [c \in DOMAIN comps |-> Part(c)]
        lead(t) == Prefix(t.shape, Len(t.shape) - 1)
        ok == \A c \in DOMAIN comps : Len(parts[c].shape) >= 1 /\ lead(parts[c]) = lead(parts[1])
    IN  IF ~ok THEN Error
        ELSE Tensor(lead(parts[1]),
                    LAMBDA i : UNION {UNION {parts[c].at[Append(i, j)] : j \in 1..parts[c].shape[Len(parts[c].shape)]} : c \in DOMAIN comps})

\* the requirement
Batched(c) == comps[c].ss # <<>>
Expected ==
    LET js == JointSS IN
    Tensor(js, LAMBDA s : UNION {IF Batched(c) THEN {<<c, i>> : i \in {x \in Indices(comps[c].lp) : IsPrefixOf(Prefix(s, Len(comps[c].ss)), x)}}
                                 ELSE {<<c, i>> : i \in Indices(comps[c].lp)} : c \in DOMAIN comps})
\* components whose sample shape is not a prefix-compatible part of the joint sample shape cannot be combined
Compatible == \A c \in DOMAIN comps : Batched(c) => IsPrefixOf(comps[c].ss, JointSS) /\ IsPrefixOf(comps[c].ss, comps[c].lp)

NoMixingHolds == Result.err \/ (Compatible /\ Result.shape = JointSS /\ Result = Expected)
NoMixing == NoMixingHolds

Init == /\ \E n \in 1..MaxComps : comps \in [1..n -> Kinds]
        /\ done = FALSE
Step == /\ ~done /\ done' = TRUE /\ UNCHANGED comps
        /\ (Emit => PrintT(<<"CASE", ToJson([comps |-> comps, jointss |-> JointSS,
                                              result |-> IF Result.err THEN "error" ELSE "tensor",
                                              shape |-> Result.shape,
                                              nomix |-> NoMixingHolds])>>))
Spec == Init /\ [][Step]_<<comps, done>>

=============================================================================
