#!/bin/sh
# Offline setup: parse every TLA+ module, byte-compile the harness. Installs nothing.
set -e
cd "$(dirname "$0")"
mkdir -p evidence .work
/venv/bin/python - <<'PY'
import glob, sys
sys.path.insert(0, '.')
from harness import tlc
bad = 0
for p in sorted(glob.glob('spec/*.tla') + glob.glob('spec/lib/*.tla')):
    try:
        tlc.sany(p)
    except Exception as e:
        bad += 1
        print(e)
print('sany: parsed', len(glob.glob('spec/*.tla') + glob.glob('spec/lib/*.tla')), 'modules,', bad, 'failed')
sys.exit(1 if bad else 0)
PY
/venv/bin/python -m compileall -q harness
